//! ndv-py - C17: the Python bindings are a transparent view of the Rust operations.
//!
//! Embeds CPython, registers `num_dual::python::num_dual` as a built-in module, renders generated
//! programs to Python source, executes them in the interpreter and compares every float that comes
//! back (and every repr) bit for bit with the same program evaluated by the Rust interpreter.

use nalgebra::{Const, DVector, Dyn, SVector};
use ndv_core::c03::{input_real, raw_op};
use ndv_core::common::*;
use ndv_core::engine::*;
use ndv_core::prog::*;
use ndv_core::types::{Flat, Ty};
use num_dual::python::num_dual as num_dual_module;
use num_dual::*;
use proptest::prelude::*;
use pyo3::prelude::*;
use pyo3::types::PyModule;
use serde::{Deserialize, Serialize};
use serde_json::json;
use std::cell::RefCell;
use std::ffi::CString;

#[derive(Clone, Debug, Serialize, Deserialize)]
pub struct Case {
    /// 0..8 direct use of the scalar classes, 8.. drivers
    pub mode: u8,
    pub x: Vec<f64>,
    pub raw: Vec<RawOp>,
    pub parts: Vec<Vec<f64>>,
    pub n: u8,
    pub n2: u8,
    pub m: u8,
    pub idx: (u8, u8, u8),
    pub style: u8,
}

pub struct C17;

const DIRECT: [(&str, bool); 8] = [
    ("Dual64", false),
    ("Dual2_64", false),
    ("Dual3_64", false),
    ("HyperDual64", false),
    ("HyperHyperDual64", false),
    ("Dual2Dual64", true),
    ("Dual3Dual64", true),
    ("HyperDualDual64", true),
];
const DRIVERS: [&str; 10] = [
    "first_derivative",
    "second_derivative",
    "third_derivative",
    "gradient",
    "jacobian",
    "hessian",
    "second_partial_derivative",
    "partial_hessian",
    "third_partial_derivative",
    "third_partial_derivative_vec",
];

fn pyf(x: f64) -> String {
    format!("{:?}", x)
}

fn py_unary(name: &str) -> &'static str {
    match name {
        "recip" => "recip",
        "sqrt" => "sqrt",
        "cbrt" => "cbrt",
        "exp" => "exp",
        "exp2" => "exp2",
        "exp_m1" => "expm1",
        "ln" => "log",
        "log2" => "log2",
        "log10" => "log10",
        "ln_1p" => "log1p",
        "sin" => "sin",
        "cos" => "cos",
        "tan" => "tan",
        "asin" => "arcsin",
        "acos" => "arccos",
        "atan" => "arctan",
        "sinh" => "sinh",
        "cosh" => "cosh",
        "tanh" => "tanh",
        "asinh" => "arcsinh",
        "acosh" => "arccosh",
        "atanh" => "arctanh",
        "sph_j0" => "sph_j0",
        "sph_j1" => "sph_j1",
        "sph_j2" => "sph_j2",
        _ => "UNSUPPORTED",
    }
}

/// build the program: opcodes without a Python counterpart are remapped, a third of the scalar
/// operations become reflected (scalar on the left)
fn build_program(x: &[f64], raw: &[RawOp], n_outs: usize) -> Program {
    let mut r = Resolver::new(x);
    for op in raw {
        let mut op = *op;
        op.code = match op.code % 52 {
            22 | 23 => 15, // abs, signum -> arctan
            31 => 32,      // atan2 -> mul_add
            50 => 33,      // Sum/Product (Python's sum starts from int 0) -> neg
            c => c,
        };
        // spherical bessel functions are exposed in Python: use them for some recip slots
        r.add_raw(&op);
        let last = r.ops.len() - 1;
        if let Op::BinS(bin, true, a, k) = r.ops[last].clone() {
            let va = r.val[a];
            if !(bin == Bin::Div && va.abs() < 1e-2) {
                let v = match bin {
                    Bin::Add => k + va,
                    Bin::Sub => k - va,
                    Bin::Mul => k * va,
                    Bin::Div => k / va,
                };
                if v.is_finite() && v.abs() <= 1e6 {
                    r.ops[last] = Op::RBinS(bin, a, k);
                    r.val[last] = v;
                }
            }
        }
        // `x ** N` with a Python int beyond the i32 range (the binding must fall back to powf): the
        // base is moved next to 1 so that the power stays finite
        if matches!(op.code, 26 | 27) && op.n.rem_euclid(4) == 0 {
            let a = r.map[r.map.len() - 1];
            let big: [f64; 8] = [2147483648.0, 2147483649.0, 4294967296.0, 4294967299.0, -2147483649.0, -4294967296.0, 1099511627781.0, 9007199254740992.0];
            let nn = big[(op.n.rem_euclid(32) / 4) as usize];
            let scale = 0.5 / nn.abs();
            let va = r.val[a];
            if va.is_finite() && va.abs() <= 8.0 {
                r.ops.push(Op::BinS(Bin::Mul, false, a, scale));
                r.val.push(va * scale);
                let t = r.ops.len() - 1;
                r.ops.push(Op::BinS(Bin::Add, false, t, 1.0));
                r.val.push(va * scale + 1.0);
                let b = r.ops.len() - 1;
                r.ops.push(Op::Powf(b, nn));
                r.val.push((va * scale + 1.0).powf(nn));
                let m = r.map.len() - 1;
                r.map[m] = r.ops.len() - 1;
            }
        }
        if op.code == 0 && op.n.rem_euclid(3) == 1 {
            // replace recip by a spherical Bessel function in a third of the cases
            if let Op::Un(name, a) = r.ops[last].clone() {
                if name == "recip" {
                    let f = ["sph_j0", "sph_j1", "sph_j2"][(op.n.rem_euclid(9) / 3) as usize];
                    if r.val[a].abs() <= 30.0 {
                        r.ops[last] = Op::Un(f.to_string(), a);
                        r.val[last] = 0.5; // bounded, only used for domain decisions
                    }
                }
            }
        }
    }
    r.finish(x.len(), n_outs)
}

/// Python statements computing the nodes of the program; inputs are the Python expressions in `ins`
fn render_py(p: &Program, ins: &[String], nested: bool, style: u8, indent: &str) -> String {
    let mut s = String::new();
    let cst = |k: f64| if nested { format!("C.from_re(num_dual.Dual64.from_re({}))", pyf(k)) } else { format!("C.from_re({})", pyf(k)) };
    let lit = |k: f64, i: usize| -> String {
        // integer-valued scalars are written as Python ints in half of the cases
        if k.fract() == 0.0 && k.abs() < 1e6 && (style as usize + i) % 2 == 0 {
            format!("{}", k as i64)
        } else {
            pyf(k)
        }
    };
    for (i, op) in p.ops.iter().enumerate() {
        let e = match op {
            Op::Input(k) => ins[*k].clone(),
            Op::Const(k) => cst(*k),
            Op::ConstI(k) => cst(*k as f64),
            Op::Un(f, a) => format!("n{a}.{}()", py_unary(f)),
            Op::SinCos(a, w) => format!("n{a}.sin_cos()[{}]", if *w { 1 } else { 0 }),
            Op::Powi(a, n) => {
                if (style as usize + i) % 2 == 0 {
                    format!("(n{a} ** {n})")
                } else {
                    format!("n{a}.powi({n})")
                }
            }
            Op::Powf(a, n) => {
                if n.fract() == 0.0 && n.abs() >= 2147483648.0 {
                    // a Python int that does not fit into i32
                    format!("(n{a} ** {})", *n as i64)
                } else if (style as usize + i) % 2 == 0 {
                    format!("(n{a} ** {})", pyf(*n))
                } else {
                    format!("n{a}.powf({})", pyf(*n))
                }
            }
            Op::Powd(a, b) => {
                if (style as usize + i) % 2 == 0 {
                    format!("(n{a} ** n{b})")
                } else {
                    format!("n{a}.powd(n{b})")
                }
            }
            Op::Log(a, b) => format!("n{a}.log_base({})", pyf(*b)),
            Op::MulAdd(a, b, c) => format!("n{a}.mul_add(n{b}, n{c})"),
            Op::Neg(a) => format!("(-n{a})"),
            Op::Bin(b, _, x, y) => {
                let o = ["+", "-", "*", "/"][*b as usize];
                if (style as usize + i) % 5 == 3 {
                    // right operand inside a numpy object array of dual numbers (element-wise operator)
                    format!("(n{x} {o} numpy.array([n{y}, n{x}], dtype=object))[0]")
                } else {
                    format!("(n{x} {o} n{y})")
                }
            }
            Op::BinS(b, _, x, k) => {
                let o = ["+", "-", "*", "/"][*b as usize];
                if (style as usize + i) % 5 == 4 {
                    // right operand inside a numpy float array
                    format!("(n{x} {o} numpy.array([1.5, {}]))[1]", pyf(*k))
                } else {
                    format!("(n{x} {o} {})", lit(*k, i))
                }
            }
            Op::RBinS(b, x, k) => format!("({} {} n{x})", lit(*k, i), ["+", "-", "*", "/"][*b as usize]),
            Op::Atan2(..) | Op::Sum(_) | Op::Product(_) | Op::Inv(_) => "UNSUPPORTED".to_string(),
        };
        s.push_str(&format!("{indent}n{i} = {e}\n"));
        if i >= p.n_inputs {
            s.push_str(&format!("{indent}R.append(repr(n{i}))\n"));
        }
    }
    s
}

const HELPER: &str = r#"
import num_dual
import numpy
def fl(o, out):
    if o is None:
        out.append(None)
    elif isinstance(o, (float, int)):
        out.append(float(o))
    elif isinstance(o, (list, tuple)):
        for e in o:
            fl(e, out)
    else:
        fl(o.value, out)
        for g in ('first_derivative', 'second_derivative', 'third_derivative'):
            if hasattr(o, g):
                fl(getattr(o, g), out)
def flat(o):
    out = []
    fl(o, out)
    return out
"#;

type PyOut = (Vec<String>, Vec<Option<f64>>);

/// run the generated source: defines run() -> (reprs, flattened floats)
fn run_python(src: &str) -> Result<PyOut, String> {
    Python::with_gil(|py| {
        let code = CString::new(src).map_err(|e| e.to_string())?;
        let m = PyModule::from_code(py, &code, c"ndv_case.py", c"ndv_case").map_err(|e| format!("compile/import: {e}"))?;
        let r = m.getattr("run").map_err(|e| e.to_string())?.call0().map_err(|e| format!("EXC:{}", e))?;
        let (reprs, vals): (Vec<String>, Vec<Option<f64>>) = r.extract().map_err(|e| format!("extract: {e}"))?;
        Ok((reprs, vals))
    })
}

fn opt_bits_eq(a: &Option<f64>, b: &Option<f64>) -> bool {
    match (a, b) {
        (None, None) => true,
        (Some(x), Some(y)) => x.to_bits() == y.to_bits() || (x.is_nan() && y.is_nan()),
        _ => false,
    }
}

/// expected flattening of a Rust value: value, then every block (None once for an absent block)
fn flat_opts<T: Ty>(v: &T, dims: &[usize]) -> Vec<Option<f64>> {
    let lay = T::layout(dims);
    let f = v.to_flat(dims);
    let mut out = vec![];
    let mut absent_done: Vec<bool> = vec![false; lay.blocks.len()];
    for (i, s) in lay.slots.iter().enumerate() {
        match s.block {
            Some(b) if !f.pres[b] => {
                if !absent_done[b] {
                    absent_done[b] = true;
                    out.push(None);
                }
            }
            _ => out.push(Some(f.vals[i])),
        }
    }
    out
}

struct Outcome {
    reprs: Vec<String>,
    vals: Vec<Option<f64>>,
}

fn compare(py: &PyOut, rs: &Outcome, alt: Option<&Outcome>, what: &str, src: &str) -> Result<(), Verdict> {
    let matches = |o: &Outcome| py.0 == o.reprs && py.1.len() == o.vals.len() && py.1.iter().zip(&o.vals).all(|(a, b)| opt_bits_eq(a, b));
    if matches(rs) || alt.map_or(false, matches) {
        return Ok(());
    }
    // find the first difference for the report
    let mut why = String::new();
    for (i, (a, b)) in py.0.iter().zip(&rs.reprs).enumerate() {
        if a != b {
            why = format!("repr of node #{i}: Python `{a}` vs Rust `{b}`");
            break;
        }
    }
    if why.is_empty() && py.0.len() != rs.reprs.len() {
        why = format!("{} reprs from Python, {} from Rust", py.0.len(), rs.reprs.len());
    }
    if why.is_empty() {
        for (i, (a, b)) in py.1.iter().zip(&rs.vals).enumerate() {
            if !opt_bits_eq(a, b) {
                why = format!("returned float #{i}: Python {:?} vs Rust {:?}", a, b);
                break;
            }
        }
    }
    if why.is_empty() {
        why = format!("{} floats from Python, {} from Rust", py.1.len(), rs.vals.len());
    }
    Err(Verdict::Fail { sig: format!("C17/{}/{}", what, why.split(':').next().unwrap_or("")), why: format!("{what}: {why}\n--- python source ---\n{src}") })
}

thread_local! {
    /// getters of the last node seen inside the driver callback (value, then every derivative getter)
    static LAST_GETTERS: RefCell<Vec<Option<f64>>> = const { RefCell::new(Vec::new()) };
    /// dimensions of the dynamic class used inside the callback
    static CB_DIMS: std::cell::Cell<(usize, usize)> = const { std::cell::Cell::new((0, 0)) };
    /// the Python class of the callback has derivative getters (the Dyn classes of hessian / partial_hessian have none)
    static CB_HAS_GETTERS: std::cell::Cell<bool> = const { std::cell::Cell::new(true) };
}

/// evaluate the program on T recording the rendering of every non-input node
fn eval_rec<T: Ty + DualNum<f64>>(prog: &Program, ins: &[T], reprs: &RefCell<Vec<String>>) -> Vec<T> {
    let v = eval_lib::<T, f64>(prog, ins);
    let mut r = reprs.borrow_mut();
    for (i, x) in v.iter().enumerate() {
        if i >= prog.n_inputs {
            r.push(x.to_string());
        }
    }
    let (d0, d1) = CB_DIMS.with(|c| c.get());
    let mut g = flat_opts(&v[v.len() - 1], &[d0, d1]);
    if !CB_HAS_GETTERS.with(|c| c.get()) {
        g.truncate(1);
    }
    LAST_GETTERS.with(|l| *l.borrow_mut() = g);
    v
}

fn direct<T: Ty<F = f64> + DualNum<f64>>(case: &Case, class: &str, nested: bool) -> Result<bool, Verdict> {
    let dims = [0usize, 0];
    let lay = T::layout(&dims);
    let nx = case.x.len().clamp(1, 3);
    let x: Vec<f64> = case.x[..nx].to_vec();
    let prog = build_program(&x, &case.raw, 1);
    let flats: Vec<Flat> = x.iter().enumerate().map(|(i, xi)| make_flat::<f64>(&lay, *xi, &case.parts[i % case.parts.len()], &[true], &[false])).collect();
    // python constructor expressions
    let ctor = |f: &Flat| -> String {
        if nested {
            let args: Vec<String> = f.vals.chunks(2).map(|c| format!("num_dual.Dual64({}, {})", pyf(c[0]), pyf(c[1]))).collect();
            format!("C({})", args.join(", "))
        } else {
            format!("C({})", f.vals.iter().map(|v| pyf(*v)).collect::<Vec<_>>().join(", "))
        }
    };
    let ins: Vec<String> = flats.iter().map(ctor).collect();
    let last = prog.ops.len() - 1;
    let src = format!(
        "{HELPER}\ndef run():\n    R = []\n    C = num_dual.{class}\n{}    return R, flat(n{last})\n",
        render_py(&prog, &ins, nested, case.style, "    ")
    );
    let py = match run_python(&src) {
        Ok(p) => p,
        Err(e) => return Err(Verdict::Fail { sig: format!("C17/{class}/python-exception"), why: format!("{class}: {e}\n--- python source ---\n{src}") }),
    };
    let xs: Vec<T> = flats.iter().map(|f| T::from_flat(&dims, f)).collect();
    let run = |alt: bool| -> Outcome {
        RDIV_ALT.with(|c| c.set(alt));
        let reprs = RefCell::new(vec![]);
        let v = eval_rec::<T>(&prog, &xs, &reprs);
        RDIV_ALT.with(|c| c.set(false));
        Outcome { reprs: reprs.into_inner(), vals: flat_opts(&v[last], &dims) }
    };
    let main = run(false);
    let has_rdiv = prog.ops.iter().any(|o| matches!(o, Op::RBinS(Bin::Div, ..)));
    let alt = if has_rdiv { Some(run(true)) } else { None };
    compare(&py, &main, alt.as_ref(), class, &src)?;
    let interesting = prog.ops.iter().any(|o| matches!(o, Op::RBinS(..) | Op::Powi(..) | Op::Powf(..) | Op::Powd(..)));
    Ok(prog.ops.len() - prog.n_inputs >= 3 && interesting)
}

macro_rules! by_n {
    ($n:expr, $f:ident, $($args:expr),*) => {
        match $n {
            1 => $f::<1>($($args),*),
            2 => $f::<2>($($args),*),
            3 => $f::<3>($($args),*),
            4 => $f::<4>($($args),*),
            5 => $f::<5>($($args),*),
            6 => $f::<6>($($args),*),
            7 => $f::<7>($($args),*),
            8 => $f::<8>($($args),*),
            9 => $f::<9>($($args),*),
            _ => $f::<10>($($args),*),
        }
    };
}

fn grad_static<const N: usize>(prog: &Program, x: &[f64], reprs: &RefCell<Vec<String>>) -> Vec<Option<f64>> {
    let out = prog.outs[0];
    let (f, g) = gradient(|v: SVector<DualSVec64<N>, N>| eval_rec::<DualSVec64<N>>(prog, &v.iter().cloned().collect::<Vec<_>>(), reprs)[out], SVector::<f64, N>::from_column_slice(x));
    std::iter::once(Some(f)).chain(g.iter().map(|v| Some(*v))).collect()
}
fn grad_dyn(prog: &Program, x: &[f64], reprs: &RefCell<Vec<String>>) -> Vec<Option<f64>> {
    let out = prog.outs[0];
    let (f, g) = gradient(|v: DVector<DualDVec64>| eval_rec::<DualDVec64>(prog, &v.iter().cloned().collect::<Vec<_>>(), reprs)[out].clone(), DVector::from_column_slice(x));
    std::iter::once(Some(f)).chain(g.iter().map(|v| Some(*v))).collect()
}
fn jac_static<const N: usize>(prog: &Program, x: &[f64], reprs: &RefCell<Vec<String>>) -> Vec<Option<f64>> {
    let outs = prog.outs.clone();
    let (f, j) = jacobian(
        |v: SVector<DualSVec64<N>, N>| {
            let vals = eval_rec::<DualSVec64<N>>(prog, &v.iter().cloned().collect::<Vec<_>>(), reprs);
            DVector::from_iterator(outs.len(), outs.iter().map(|o| vals[*o]))
        },
        SVector::<f64, N>::from_column_slice(x),
    );
    let mut r: Vec<Option<f64>> = f.iter().map(|v| Some(*v)).collect();
    for row in j.row_iter() {
        r.extend(row.iter().map(|v| Some(*v)));
    }
    r
}
fn hess_static<const N: usize>(prog: &Program, x: &[f64], reprs: &RefCell<Vec<String>>) -> Vec<Option<f64>> {
    let out = prog.outs[0];
    let (f, g, h) = hessian(|v: SVector<Dual2SVec64<N>, N>| eval_rec::<Dual2SVec64<N>>(prog, &v.iter().cloned().collect::<Vec<_>>(), reprs)[out], SVector::<f64, N>::from_column_slice(x));
    let mut r: Vec<Option<f64>> = std::iter::once(Some(f)).chain(g.iter().map(|v| Some(*v))).collect();
    for row in h.row_iter() {
        r.extend(row.iter().map(|v| Some(*v)));
    }
    r
}
fn hess_dyn(prog: &Program, x: &[f64], reprs: &RefCell<Vec<String>>) -> Vec<Option<f64>> {
    let out = prog.outs[0];
    let (f, g, h) = hessian(|v: DVector<Dual2DVec64>| eval_rec::<Dual2DVec64>(prog, &v.iter().cloned().collect::<Vec<_>>(), reprs)[out].clone(), DVector::from_column_slice(x));
    let mut r: Vec<Option<f64>> = std::iter::once(Some(f)).chain(g.iter().map(|v| Some(*v))).collect();
    for row in h.row_iter() {
        r.extend(row.iter().map(|v| Some(*v)));
    }
    r
}
fn ph_static<const M: usize, const N: usize>(prog: &Program, x: &[f64], y: &[f64], reprs: &RefCell<Vec<String>>) -> Vec<Option<f64>> {
    let out = prog.outs[0];
    type H<const M: usize, const N: usize> = HyperDualSVec64<M, N>;
    let (f, fx, fy, fxy) = partial_hessian(
        |a: SVector<H<M, N>, M>, b: SVector<H<M, N>, N>| eval_rec::<H<M, N>>(prog, &a.iter().cloned().chain(b.iter().cloned()).collect::<Vec<_>>(), reprs)[out],
        SVector::<f64, M>::from_column_slice(x),
        SVector::<f64, N>::from_column_slice(y),
    );
    let mut r: Vec<Option<f64>> = std::iter::once(Some(f)).chain(fx.iter().map(|v| Some(*v))).chain(fy.iter().map(|v| Some(*v))).collect();
    for row in fxy.row_iter() {
        r.extend(row.iter().map(|v| Some(*v)));
    }
    r
}
fn ph_dyn(prog: &Program, x: &[f64], y: &[f64], reprs: &RefCell<Vec<String>>) -> Vec<Option<f64>> {
    let out = prog.outs[0];
    let (f, fx, fy, fxy) = partial_hessian(
        |a: DVector<HyperDualDVec64>, b: DVector<HyperDualDVec64>| eval_rec::<HyperDualDVec64>(prog, &a.iter().cloned().chain(b.iter().cloned()).collect::<Vec<_>>(), reprs)[out].clone(),
        DVector::from_column_slice(x),
        DVector::from_column_slice(y),
    );
    let mut r: Vec<Option<f64>> = std::iter::once(Some(f)).chain(fx.iter().map(|v| Some(*v))).chain(fy.iter().map(|v| Some(*v))).collect();
    for row in fxy.row_iter() {
        r.extend(row.iter().map(|v| Some(*v)));
    }
    r
}
fn ph_by<const M: usize>(n: usize, prog: &Program, x: &[f64], y: &[f64], reprs: &RefCell<Vec<String>>) -> Vec<Option<f64>> {
    match n {
        1 => ph_static::<M, 1>(prog, x, y, reprs),
        2 => ph_static::<M, 2>(prog, x, y, reprs),
        3 => ph_static::<M, 3>(prog, x, y, reprs),
        4 => ph_static::<M, 4>(prog, x, y, reprs),
        _ => ph_static::<M, 5>(prog, x, y, reprs),
    }
}

fn driver(case: &Case, st: &mut Stats) -> Result<bool, Verdict> {
    let d = (case.mode as usize - 8) % DRIVERS.len();
    let name = DRIVERS[d];
    // sizes: 1..12 variables
    let n = (case.n as usize % 12) + 1;
    let (nx, ny, m) = match d {
        0 | 1 | 2 => (1, 0, 1),
        3 | 5 => (n, 0, 1),
        4 => (n, 0, (case.m as usize % 4) + 1),
        6 => (1, 1, 1),
        7 => ((case.n as usize % 7) + 1, (case.n2 as usize % 7) + 1, 1),
        8 => (3, 0, 1),
        _ => ((case.n as usize % 6) + 1, 0, 1),
    };
    let nvar = match d {
        6 => 2,
        _ => nx + ny,
    };
    let x: Vec<f64> = (0..nvar).map(|i| case.x[i % case.x.len()] + 0.125 * (i / case.x.len()) as f64).collect();
    let mut prog = build_program(&x, &case.raw, m);
    while prog.outs.len() < m {
        let l = *prog.outs.last().unwrap();
        prog.outs.push(l);
    }
    let last = prog.ops.len() - 1;
    let list = |v: &[f64]| format!("[{}]", v.iter().map(|x| pyf(*x)).collect::<Vec<_>>().join(", "));
    let (i3, j3, k3) = (case.idx.0 as usize % nvar, case.idx.1 as usize % nvar, case.idx.2 as usize % nvar);
    // python side
    let (sig, ins, call): (String, Vec<String>, String) = match d {
        0 | 1 | 2 => ("x".into(), vec!["x".into()], format!("num_dual.{name}(f, {})", pyf(x[0]))),
        3 | 4 | 5 => ("x".into(), (0..nvar).map(|i| format!("x[{i}]")).collect(), format!("num_dual.{name}(f, {})", list(&x))),
        6 => ("x, y".into(), vec!["x".into(), "y".into()], format!("num_dual.{name}(f, {}, {})", pyf(x[0]), pyf(x[1]))),
        7 => ("x, y".into(), (0..nx).map(|i| format!("x[{i}]")).chain((0..ny).map(|j| format!("y[{j}]"))).collect(), format!("num_dual.{name}(f, {}, {})", list(&x[..nx]), list(&x[nx..]))),
        8 => ("x, y, z".into(), vec!["x".into(), "y".into(), "z".into()], format!("num_dual.{name}(f, {}, {}, {})", pyf(x[0]), pyf(x[1]), pyf(x[2]))),
        _ => ("x".into(), (0..nvar).map(|i| format!("x[{i}]")).collect(), format!("num_dual.{name}(f, {}, {i3}, {j3}, {k3})", list(&x))),
    };
    let ret = if d == 4 { format!("[{}]", prog.outs.iter().map(|o| format!("n{o}")).collect::<Vec<_>>().join(", ")) } else { format!("n{last}") };
    let src = format!(
        "{HELPER}\ndef run():\n    R = []\n    G = []\n    def f({sig}):\n        C = type({})\n{}        G.extend(flat(n{last}))\n        return {ret}\n    res = {call}\n    return R, flat(res) + [None, None] + G\n",
        ins[0],
        render_py(&prog, &ins, false, case.style, "        ")
    );
    let py = run_python(&src);
    // contract: jacobians are only available for up to 10 variables
    if d == 4 && nvar > 10 {
        st.class("jacobian with more than 10 variables raises TypeError");
        return match py {
            Err(e) if e.contains("TypeError") => Ok(true),
            other => Err(Verdict::Fail { sig: "C17/jacobian/too-many-variables".into(), why: format!("jacobian with {nvar} variables must raise TypeError, got {:?}", other.map(|o| o.1)) }),
        };
    }
    let py = match py {
        Ok(p) => p,
        Err(e) => return Err(Verdict::Fail { sig: format!("C17/{name}/python-exception"), why: format!("{name}: {e}\n--- python source ---\n{src}") }),
    };
    let has_rdiv = prog.ops.iter().any(|o| matches!(o, Op::RBinS(Bin::Div, ..)));
    // class used inside the callback: dimensions for the dynamic classes, and whether it has getters
    CB_DIMS.with(|c| c.set(if d == 7 { (nx, ny) } else { (nvar, nvar) }));
    CB_HAS_GETTERS.with(|c| c.set(!((d == 5 && nvar > 10) || (d == 7 && !(nx <= 5 && ny <= 5)))));
    let run = |alt: bool| -> Outcome {
        RDIV_ALT.with(|c| c.set(alt));
        let reprs = RefCell::new(vec![]);
        let out = prog.outs[0];
        let mut vals: Vec<Option<f64>> = match d {
            0 => {
                let r = first_derivative(|v: Dual64| eval_rec::<Dual64>(&prog, &[v], &reprs)[out], x[0]);
                vec![Some(r.0), Some(r.1)]
            }
            1 => {
                let r = second_derivative(|v: Dual2_64| eval_rec::<Dual2_64>(&prog, &[v], &reprs)[out], x[0]);
                vec![Some(r.0), Some(r.1), Some(r.2)]
            }
            2 => {
                let r = third_derivative(|v: Dual3_64| eval_rec::<Dual3_64>(&prog, &[v], &reprs)[out], x[0]);
                vec![Some(r.0), Some(r.1), Some(r.2), Some(r.3)]
            }
            3 => {
                if nvar <= 10 {
                    by_n!(nvar, grad_static, &prog, &x, &reprs)
                } else {
                    grad_dyn(&prog, &x, &reprs)
                }
            }
            4 => by_n!(nvar, jac_static, &prog, &x, &reprs),
            5 => {
                if nvar <= 10 {
                    by_n!(nvar, hess_static, &prog, &x, &reprs)
                } else {
                    hess_dyn(&prog, &x, &reprs)
                }
            }
            6 => {
                let r = second_partial_derivative(|a: HyperDual64, b: HyperDual64| eval_rec::<HyperDual64>(&prog, &[a, b], &reprs)[out], x[0], x[1]);
                vec![Some(r.0), Some(r.1), Some(r.2), Some(r.3)]
            }
            7 => {
                if nx <= 5 && ny <= 5 {
                    match nx {
                        1 => ph_by::<1>(ny, &prog, &x[..nx], &x[nx..], &reprs),
                        2 => ph_by::<2>(ny, &prog, &x[..nx], &x[nx..], &reprs),
                        3 => ph_by::<3>(ny, &prog, &x[..nx], &x[nx..], &reprs),
                        4 => ph_by::<4>(ny, &prog, &x[..nx], &x[nx..], &reprs),
                        _ => ph_by::<5>(ny, &prog, &x[..nx], &x[nx..], &reprs),
                    }
                } else {
                    ph_dyn(&prog, &x[..nx], &x[nx..], &reprs)
                }
            }
            8 => {
                let r = third_partial_derivative(|a: HyperHyperDual64, b: HyperHyperDual64, c: HyperHyperDual64| eval_rec::<HyperHyperDual64>(&prog, &[a, b, c], &reprs)[out], x[0], x[1], x[2]);
                vec![Some(r.0), Some(r.1), Some(r.2), Some(r.3), Some(r.4), Some(r.5), Some(r.6), Some(r.7)]
            }
            _ => {
                let r = third_partial_derivative_vec(|v: &[HyperHyperDual64]| eval_rec::<HyperHyperDual64>(&prog, v, &reprs)[out], &x, i3, j3, k3);
                vec![Some(r.0), Some(r.1), Some(r.2), Some(r.3), Some(r.4), Some(r.5), Some(r.6), Some(r.7)]
            }
        };
        RDIV_ALT.with(|c| c.set(false));
        // separator + the getters of the last node inside the callback
        vals.push(None);
        vals.push(None);
        vals.extend(LAST_GETTERS.with(|l| l.borrow().clone()));
        Outcome { reprs: reprs.into_inner(), vals }
    };
    let main = run(false);
    let alt = if has_rdiv { Some(run(true)) } else { None };
    compare(&py, &main, alt.as_ref(), name, &src)?;
    st.class(&format!("driver:{name}"));
    if matches!(d, 3 | 4 | 5) {
        st.class(&format!("{name}: {} variables ({})", nvar, if nvar <= 10 { "fixed-size class" } else { "dynamic class" }));
    }
    if d == 7 {
        st.class(&format!("partial_hessian: {}x{} ({})", nx, ny, if nx <= 5 && ny <= 5 { "fixed-size class" } else { "dynamic class" }));
    }
    Ok(nvar >= 2)
}

impl Property for C17 {
    type Case = Case;
    const ID: &'static str = "C17";
    fn strategy(tier: Tier) -> BoxedStrategy<Case> {
        let max_nodes = if tier == Tier::Quick { 10 } else { 24 };
        (
            prop_oneof![4 => 0u8..8, 6 => 8u8..18],
            proptest::collection::vec(input_real(), 4),
            proptest::collection::vec(raw_op(), 2..=max_nodes),
            proptest::collection::vec(parts_pool(), 3),
            (any::<u8>(), any::<u8>(), any::<u8>()),
            (any::<u8>(), any::<u8>(), any::<u8>()),
            any::<u8>(),
        )
            .prop_map(|(mode, x, raw, parts, (n, n2, m), idx, style)| Case { mode, x, raw, parts, n, n2, m, idx, style })
            .boxed()
    }
    fn check(case: &Case, st: &mut Stats) -> Verdict {
        if case.x.is_empty() || case.raw.is_empty() || case.parts.is_empty() || case.parts.iter().any(|p| p.is_empty()) || case.x.iter().any(|x| !x.is_finite() || x.abs() > 1e3) || case.raw.iter().any(|r| !r.k.is_finite() || r.k.abs() > 1.0) || case.parts.iter().flatten().any(|p| !p.is_finite()) {
            return Verdict::Trivial("malformed case");
        }
        let r = if case.mode % 18 < 8 {
            let (class, nested) = DIRECT[(case.mode % 18) as usize];
            st.class(&format!("class:{class}"));
            match case.mode % 18 {
                0 => direct::<Dual64>(case, class, nested),
                1 => direct::<Dual2_64>(case, class, nested),
                2 => direct::<Dual3_64>(case, class, nested),
                3 => direct::<HyperDual64>(case, class, nested),
                4 => direct::<HyperHyperDual64>(case, class, nested),
                5 => direct::<Dual2<Dual64, f64>>(case, class, nested),
                6 => direct::<Dual3<Dual64, f64>>(case, class, nested),
                _ => direct::<HyperDual<Dual64, f64>>(case, class, nested),
            }
        } else {
            let c2 = Case { mode: 8 + (case.mode % 18 - 8), ..case.clone() };
            driver(&c2, st)
        };
        match r {
            Ok(nontrivial) => {
                if case.raw.iter().any(|o| matches!(o.code % 52, 26 | 27) && o.n.rem_euclid(4) == 0) {
                    st.class("program may contain `**` with a Python int beyond the i32 range");
                }
                if nontrivial && st.wants_sample() {
                    st.sample(|| json!({"mode": if case.mode % 18 < 8 { DIRECT[(case.mode % 18) as usize].0 } else { DRIVERS[(case.mode % 18 - 8) as usize] }, "nodes": case.raw.len()}));
                }
                Verdict::Pass { nontrivial }
            }
            Err(v) => v,
        }
    }
    fn cases(tier: Tier) -> u64 {
        match tier {
            Tier::Quick => 30_000,
            Tier::Thorough => 1_000_000,
        }
    }
    fn rule() -> String {
        "generated (by proptest, in Rust): a program of 2..10 (thorough: 24) nodes and either one of the 8 scalar Python classes (Dual64, Dual2_64, Dual3_64, HyperDual64, HyperHyperDual64, Dual2Dual64, Dual3Dual64, HyperDualDual64) with arbitrary constructor parts, or one of the 10 driver functions with 1..12 variables (fixed-size classes up to 10 / (5,5), dynamic classes beyond, jacobian beyond 10 must raise TypeError), 1..4 outputs, generated index triples. The program is rendered to PYTHON SOURCE (methods, `+ - * /` with dual, float and int operands on either side and with numpy float / object arrays on the right, `**` with int, float and dual exponents, neg, sin_cos, log_base, mul_add, sph_j0/1/2, from_re constants) and executed in an embedded CPython 3.11 against the built-in module num_dual::python::num_dual; the same program is evaluated by the generic Rust interpreter on the corresponding Rust type / Rust driver. Oracle: bit-for-bit equality of every float that comes back through the getters / driver tuples (None for absent parts) and string equality of repr() of EVERY node with Rust's to_string(); the reflected division l / x is accepted as either recip(x) * l (the documented form) or D::from(l) / x. Non-trivial: >= 3 nodes including a reflected operator or a power, or a driver call with >= 2 variables.".into()
    }
    fn assumptions() -> Vec<String> {
        vec!["CPython 3.11 shared library and numpy of the tooling venv are part of the image".into()]
    }
}

fn main() {
    let argv: Vec<String> = std::env::args().collect();
    if argv.len() < 2 || argv[1] != "C17" {
        eprintln!("usage: ndv-py C17 [quick|thorough] [--seed N] [--replay FILE] [--cases N]");
        std::process::exit(2);
    }
    if std::env::var("PYTHONPATH").is_err() {
        std::env::set_var("PYTHONPATH", "/opt/veriftools/pyvenv/lib/python3.11/site-packages");
    }
    if std::env::var("PYTHONHOME").is_err() {
        std::env::set_var("PYTHONHOME", "/root/.pyenv/versions/3.11.7");
    }
    pyo3::append_to_inittab!(num_dual_module);
    pyo3::prepare_freethreaded_python();
    // smoke test of the embedding: inconclusive (exit 2) when the interpreter / numpy are missing
    let ok = Python::with_gil(|py| -> PyResult<()> {
        let m = py.import("num_dual")?;
        let _ = m.getattr("Dual64")?;
        Ok(())
    });
    if let Err(e) = ok {
        eprintln!("embedded Python is not usable: {e}");
        std::process::exit(2);
    }
    let mut args = ndv_core::parse_args(&argv[2..]);
    args.shards = args.shards.min(4);
    let _ = (Const::<1>, Dyn(0));
    std::process::exit(run::<C17>(&args));
}
