// Link the harness against the CPython shared library of the tooling venv (embedding).
use std::process::Command;
fn main() {
    let py = std::env::var("PYO3_PYTHON").unwrap_or_else(|_| "/opt/veriftools/pyvenv/bin/python".into());
    let out = Command::new(&py)
        .args(["-c", "import sysconfig; print(sysconfig.get_config_var('LIBDIR')); print(sysconfig.get_config_var('LDVERSION') or sysconfig.get_config_var('VERSION'))"])
        .output()
        .expect("python for embedding not found");
    let s = String::from_utf8_lossy(&out.stdout);
    let mut it = s.lines();
    let libdir = it.next().unwrap_or("/root/.pyenv/versions/3.11.7/lib").trim().to_string();
    let ver = it.next().unwrap_or("3.11").trim().to_string();
    println!("cargo:rustc-link-search=native={libdir}");
    println!("cargo:rustc-link-lib=dylib=python{ver}");
    println!("cargo:rustc-link-arg=-Wl,-rpath,{libdir}");
    println!("cargo:rerun-if-env-changed=PYO3_PYTHON");
}
