use num_dual::*;
use nalgebra::{SMatrix, SVector, RowSVector};
struct R(u64);
impl R { fn s(&mut self) -> f64 { self.0 = self.0.wrapping_mul(6364136223846793005).wrapping_add(1442695040888963407); (((self.0 >> 11) as f64) / (1u64<<53) as f64 * 2.0 - 1.0) * 2.0 } }

fn ops<D: DualNum<f64> + Clone>(x: &D, y: &D) -> Vec<D> {
    vec![x.clone() * y.clone(), x.clone() / y.clone(), x.sin(), (x.clone() * y.clone() + 3.0).ln(), x.exp() / (y.clone() * y.clone() + 1.0), x.atan().powi(3)]
}

fn p(v: &[f64]) -> String { v.iter().map(|x| format!("{:e}", x)).collect::<Vec<_>>().join(" ") }

fn d2v(r: &mut R) -> Dual2Vec<f64, f64, nalgebra::Const<2>> {
    Dual2Vec::new(r.s(), Derivative::some(RowSVector::<f64,2>::from_fn(|_, _| r.s())), Derivative::some(SMatrix::<f64,2,2>::from_fn(|_, _| r.s())))
}
fn d2v_parts(d: &Dual2Vec<f64, f64, nalgebra::Const<2>>) -> Vec<f64> {
    let v1 = d.v1.clone().unwrap_generic(nalgebra::U1, nalgebra::Const::<2>); let v2 = d.v2.clone().unwrap_generic(nalgebra::Const::<2>, nalgebra::Const::<2>);
    vec![d.re, v1[0], v1[1], v2[(0,0)], v2[(0,1)], v2[(1,0)], v2[(1,1)]]
}
fn hdv(r: &mut R) -> HyperDualVec<f64, f64, nalgebra::Const<2>, nalgebra::Const<3>> {
    HyperDualVec::new(r.s(), Derivative::some(SVector::<f64,2>::from_fn(|_, _| r.s())), Derivative::some(RowSVector::<f64,3>::from_fn(|_, _| r.s())), Derivative::some(SMatrix::<f64,2,3>::from_fn(|_, _| r.s())))
}
fn hdv_parts(d: &HyperDualVec<f64, f64, nalgebra::Const<2>, nalgebra::Const<3>>) -> Vec<f64> {
    let e1 = d.eps1.clone().unwrap_generic(nalgebra::Const::<2>, nalgebra::U1); let e2 = d.eps2.clone().unwrap_generic(nalgebra::U1, nalgebra::Const::<3>); let e12 = d.eps1eps2.clone().unwrap_generic(nalgebra::Const::<2>, nalgebra::Const::<3>);
    let mut v = vec![d.re, e1[0], e1[1], e2[0], e2[1], e2[2]];
    for i in 0..2 { for j in 0..3 { v.push(e12[(i,j)]); } }
    v
}
fn main() {
    let mut r = R(7);
    for _ in 0..5 {
        let (x, y) = (d2v(&mut r), d2v(&mut r));
        println!("D2V2 x {}", p(&d2v_parts(&x))); println!("D2V2 y {}", p(&d2v_parts(&y)));
        for (i, o) in ops(&x, &y).iter().enumerate() { println!("D2V2 r{} {}", i, p(&d2v_parts(o))); }
        let (x, y) = (hdv(&mut r), hdv(&mut r));
        println!("HDV23 x {}", p(&hdv_parts(&x))); println!("HDV23 y {}", p(&hdv_parts(&y)));
        for (i, o) in ops(&x, &y).iter().enumerate() { println!("HDV23 r{} {}", i, p(&hdv_parts(o))); }
        let x = Dual3_64::new(r.s(), r.s(), r.s(), r.s()); let y = Dual3_64::new(r.s(), r.s(), r.s(), r.s());
        let f = |d: &Dual3_64| vec![d.re, d.v1, d.v2, d.v3];
        println!("D3 x {}", p(&f(&x))); println!("D3 y {}", p(&f(&y)));
        for (i, o) in ops(&x, &y).iter().enumerate() { println!("D3 r{} {}", i, p(&f(o))); }
        let mut h = || HyperHyperDual64::new(r.s(), r.s(), r.s(), r.s(), r.s(), r.s(), r.s(), r.s());
        let (x, y) = (h(), h());
        let f = |d: &HyperHyperDual64| vec![d.re, d.eps1, d.eps2, d.eps3, d.eps1eps2, d.eps1eps3, d.eps2eps3, d.eps1eps2eps3];
        println!("HHD x {}", p(&f(&x))); println!("HHD y {}", p(&f(&y)));
        for (i, o) in ops(&x, &y).iter().enumerate() { println!("HHD r{} {}", i, p(&f(o))); }
        let mut n = || Dual2::<Dual64, f64>::new(Dual64::new(r.s(), r.s()), Dual64::new(r.s(), r.s()), Dual64::new(r.s(), r.s()));
        let (x, y) = (n(), n());
        let f = |d: &Dual2<Dual64, f64>| vec![d.re.re, d.re.eps, d.v1.re, d.v1.eps, d.v2.re, d.v2.eps];
        println!("D2D x {}", p(&f(&x))); println!("D2D y {}", p(&f(&y)));
        for (i, o) in ops(&x, &y).iter().enumerate() { println!("D2D r{} {}", i, p(&f(o))); }
    }
}
