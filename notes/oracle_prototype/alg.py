# prototype of the group-nilsquare reference algebra (DESIGN 3.2), validated against library output
import math, itertools
from fractions import Fraction

class Alg:
    """groups: list of sizes. monomial = tuple of per-group choice (0 = none, i>=1 generator i)."""
    def __init__(self, groups): self.groups = groups; self.one = tuple(0 for _ in groups)
    def mul_mono(self, a, b):
        out = []
        for x, y in zip(a, b):
            if x and y: return None
            out.append(x or y)
        return tuple(out)

class El:
    def __init__(self, alg, c=None): self.alg = alg; self.c = dict(c or {})
    def __add__(self, o):
        if not isinstance(o, El): o = El(self.alg, {self.alg.one: o})
        r = dict(self.c)
        for m, v in o.c.items(): r[m] = r.get(m, 0.0) + v
        return El(self.alg, r)
    def __mul__(self, o):
        if not isinstance(o, El): return El(self.alg, {m: v*o for m, v in self.c.items()})
        r = {}
        for m1, v1 in self.c.items():
            for m2, v2 in o.c.items():
                m = self.alg.mul_mono(m1, m2)
                if m is not None: r[m] = r.get(m, 0.0) + v1*v2
        return El(self.alg, r)
    def apply(self, taylor):   # taylor(a0, k) -> g^(k)(a0)/k!
        a0 = self.c.get(self.alg.one, 0.0)
        N = El(self.alg, {m: v for m, v in self.c.items() if m != self.alg.one})
        d = len(self.alg.groups)
        res = El(self.alg, {self.alg.one: taylor(a0, 0)})
        P = El(self.alg, {self.alg.one: 1.0})
        for k in range(1, d+1):
            P = P * N
            res = res + P * taylor(a0, k)
        return res
    def get(self, m): return self.c.get(m, 0.0)

def t_recip(a, k): return (-1)**k / a**(k+1)
def t_sin(a, k): return [math.sin(a), math.cos(a), -math.sin(a), -math.cos(a)][k % 4] / math.factorial(k)
def t_exp(a, k): return math.exp(a) / math.factorial(k)
def t_ln(a, k): return math.log(a) if k == 0 else (-1)**(k-1) / (k * a**k)
def t_atan(a, k):
    r = 1/(1+a*a)
    return [math.atan(a), r, -a*r*r, (6*a*a-2)*r**3/6, (24*a - 24*a**3)*r**4/24][k]   # k<=4:  atan'''' = 24a(1-a^2)/(1+a^2)^4
def t_pow3(a, k): return [a**3, 3*a*a, 3*a, 1.0, 0.0, 0.0, 0.0][k]

def ops(x, y):
    return [x*y, x*y.apply(t_recip), x.apply(t_sin), (x*y + 3.0).apply(t_ln), x.apply(t_exp)*((y*y + 1.0).apply(t_recip)), x.apply(t_atan).apply(t_pow3)]

# embeddings: (groups, [(part index -> list of monomials)])
def mono(groups, sel):  # sel: dict group->gen
    return tuple(sel.get(g, 0) for g in range(len(groups)))
def emb_D2V2():
    g = [2, 2]; parts = [[mono(g, {})], [mono(g,{0:1}), mono(g,{1:1})], [mono(g,{0:2}), mono(g,{1:2})]]
    for i in (1,2):
        for j in (1,2): parts.append([mono(g,{0:i,1:j})])
    return g, parts
def emb_HDV23():
    g = [2, 3]; parts = [[mono(g,{})], [mono(g,{0:1})], [mono(g,{0:2})], [mono(g,{1:1})], [mono(g,{1:2})], [mono(g,{1:3})]]
    for i in (1,2):
        for j in (1,2,3): parts.append([mono(g,{0:i,1:j})])
    return g, parts
def emb_D3():
    g = [1,1,1]
    return g, [[(0,0,0)], [(1,0,0),(0,1,0),(0,0,1)], [(1,1,0),(1,0,1),(0,1,1)], [(1,1,1)]]
def emb_HHD():
    g = [1,1,1]
    return g, [[(0,0,0)], [(1,0,0)], [(0,1,0)], [(0,0,1)], [(1,1,0)], [(1,0,1)], [(0,1,1)], [(1,1,1)]]
def emb_D2D():   # Dual2<Dual64>: outer groups a,b ; inner group e.  parts order: re.re re.eps v1.re v1.eps v2.re v2.eps
    g = [1,1,1]   # a, b, e
    outer = [[(0,0)], [(1,0),(0,1)], [(1,1)]]; inner = [[(0,)], [(1,)]]
    parts = []
    for po in outer:
        for pi in inner:
            parts.append([mo + mi for mo in po for mi in pi])
    return g, parts
EMB = {'D2V2': emb_D2V2(), 'HDV23': emb_HDV23(), 'D3': emb_D3(), 'HHD': emb_HHD(), 'D2D': emb_D2D()}

def embed(name, vals):
    g, parts = EMB[name]; alg = Alg(g); c = {}
    for v, ms in zip(vals, parts):
        for m in ms: c[m] = v
    return El(alg, c)
def project(name, el):
    g, parts = EMB[name]
    out = []
    for ms in parts:
        vs = [el.get(m) for m in ms]
        assert max(vs) - min(vs) <= 1e-9 * (1 + max(abs(v) for v in vs)), ('asym', name, vs)
        out.append(vs[0])
    return out

cur = {}; worst = {}
for line in open(__import__('os').path.join(__import__('os').path.dirname(__file__), 'lib_results_sample.txt')):
    t = line.split(); name, tag = t[0], t[1]; vals = [float(v) for v in t[2:]]
    if tag in ('x', 'y'): cur[(name, tag)] = vals; continue
    i = int(tag[1:])
    x = embed(name, cur[(name,'x')]); y = embed(name, cur[(name,'y')])
    dom_ok = True
    try:
        ref = project(name, ops(x, y)[i])
    except (ValueError, ZeroDivisionError):
        continue
    for a, b in zip(vals, ref):
        if math.isnan(a) or math.isnan(b): continue
        err = abs(a-b) / (abs(b) + 1e-12)
        worst[(name, i)] = max(worst.get((name, i), 0.0), err)
for k in sorted(worst): print(k, '%.2e' % worst[k])
