#!/usr/bin/env python3
"""Draft mutant catalogue (sensitivity self-test, DESIGN.md section 6).

Each mutant is a list of (file, old, new) string edits against the *repaired* tree
(num-dual + the fix drafts in notes/fix-drafts).  Edits are CRLF-aware.  A mutant is
valid only if it compiles and the pinned suite (default features) still passes; this
script checks exactly that:   mutants_draft.py <tree> <scratch-dir> [name ...]
"""
import os, shutil, subprocess, sys

M = {}

def m(name, prop, *edits):
    M[name] = (prop, edits)

D = 'src/derivatives.rs'
# --- C01 -----------------------------------------------------------------------------
m('cbrt_neg_sign', 'C01', (D,
  "                let rec = self.re.recip();\n                let third = F::from(1.0 / 3.0).unwrap();",
  "                let rec = self.re.abs().recip();\n                let third = F::from(1.0 / 3.0).unwrap();"))
# --- C02 / C03 / C04 -------------------------------------------------------------------
m('dual2vec_div_dup', 'C02', ('src/dual2_vec.rs',
  "                - (&other.v2 * self.re.clone()\n                    + self.v1.tr_mul(&other.v1)\n                    + other.v1.tr_mul(&self.v1))",
  "                - (&other.v2 * self.re.clone()\n                    + self.v1.tr_mul(&other.v1)\n                    + self.v1.tr_mul(&other.v1))"))
m('hdvec_mul_dup', 'C02', ('src/hyperdual_vec.rs',
  "                + &self.eps1 * &other.eps2\n                + &other.eps1 * &self.eps2\n                + &self.eps1eps2 * other.re.clone(),",
  "                + &self.eps1 * &other.eps2\n                + &self.eps1 * &other.eps2\n                + &self.eps1eps2 * other.re.clone(),"))
m('hhd_chain_term', 'C02', ('src/hyperhyperdual.rs',
  "                    + self.eps2.clone() * &self.eps1eps3",
  "                    + self.eps2.clone() * &self.eps2eps3"))
m('mul_add_swapped', 'C03', ('src/lib.rs',
  "        self.clone() * a + b\n", "        self.clone() * b + a\n"))
m('nderiv_not_summed', 'C04', (D,
  "            const NDERIV: usize = T::NDERIV + $nderiv;", "            const NDERIV: usize = $nderiv;"))
# --- C05 -----------------------------------------------------------------------------
m('gradient_seed_reversed', 'C05', ('src/dual_vec.rs',
  "    let mut x = x.map(DualVec::from_re);\n    let (r, c) = x.shape_generic();\n    for (i, xi) in x.iter_mut().enumerate() {\n        xi.eps = Derivative::derivative_generic(r, c, i);\n    }\n    g(x).map(|res| (res.re, res.eps.unwrap_generic(r, c)))",
  "    let mut x = x.map(DualVec::from_re);\n    let (r, c) = x.shape_generic();\n    let n = x.len();\n    for (i, xi) in x.iter_mut().enumerate() {\n        xi.eps = Derivative::derivative_generic(r, c, n - 1 - i);\n    }\n    g(x).map(|res| (res.re, res.eps.unwrap_generic(r, c)))"))
m('tpd_tuple_swap', 'C05', ('src/hyperhyperdual.rs',
  "    x[i].eps1 = T::one();\n    x[j].eps2 = T::one();\n    x[k].eps3 = T::one();\n    g(&x).map(|r| {\n        (\n            r.re,\n            r.eps1,\n            r.eps2,\n            r.eps3,\n            r.eps1eps2,\n            r.eps1eps3,\n            r.eps2eps3,",
  "    x[i].eps1 = T::one();\n    x[j].eps2 = T::one();\n    x[k].eps3 = T::one();\n    g(&x).map(|r| {\n        (\n            r.re,\n            r.eps1,\n            r.eps2,\n            r.eps3,\n            r.eps1eps2,\n            r.eps2eps3,\n            r.eps1eps3,"))
m('tpd_vec_seed', 'C05', ('src/hyperhyperdual.rs',
  "    x[j].eps2 = T::one();\n    x[k].eps3 = T::one();\n    g(&x)", "    x[i].eps2 = T::one();\n    x[k].eps3 = T::one();\n    g(&x)"))
m('partial_hessian_y_seed', 'C05', ('src/hyperdual_vec.rs',
  "        yi.eps2 = Derivative::derivative_generic(U1, n, i)", "        yi.eps2 = Derivative::derivative_generic(U1, n, 0)"))
# --- C06 -----------------------------------------------------------------------------
m('dualvec_cmp_eps', 'C06', ('src/dual_vec.rs',
  "    fn eq(&self, other: &Self) -> bool {\n        self.re.eq(&other.re)\n    }",
  "    fn eq(&self, other: &Self) -> bool {\n        self.re.eq(&other.re) && self.eps == other.eps\n    }"))
m('abs_sub_flipped', 'C06', ('src/macros.rs',
  "                if self.re() > other.re() {\n                    self - other",
  "                if self.re() < other.re() {\n                    self - other"))
# --- C07 -----------------------------------------------------------------------------
m('deriv_subassign_none_some', 'C07', ('src/derivative.rs',
  "            (None, Some(r)) => self.0 = Some(-&r),", "            (None, Some(r)) => self.0 = Some(r),"))
# --- C08 -----------------------------------------------------------------------------
m('add_assign_scalar_sign', 'C08', ('src/macros.rs',
  "            fn add_assign(&mut self, other: F)  {\n                self.re += other;",
  "            fn add_assign(&mut self, other: F)  {\n                self.re -= other;"))
m('sum_ref_starts_at_one', 'C08', ('src/macros.rs',
  "                I: Iterator<Item = &'a $struct<T, F$($(, $dim)*)?>>,\n            {\n                iter.fold(Self::zero(), |acc, c| acc + c)",
  "                I: Iterator<Item = &'a $struct<T, F$($(, $dim)*)?>>,\n            {\n                iter.fold(Self::one(), |acc, c| acc + c)"))
# --- C09 / C10 -----------------------------------------------------------------------
m('powf_two_window', 'C09', (D,
  "                } else if (n - F::one() - F::one()).abs() < F::epsilon() {",
  "                } else if (n - F::one() - F::one()).abs() < F::from(0.25).unwrap() {"))
m('powd_drops_exponent_parts', 'C09', ('src/lib.rs',
  "        (self.ln() * exp).exp()", "        (self.ln() * exp.re()).exp()"))
m('atan2_wrong_branch', 'C10', (D,
  "                let mut res = if self.re().abs() > other.re().abs() {",
  "                let mut res = if self.re().abs() < other.re().abs() && !self.re().is_zero() {"))
# --- C11 -----------------------------------------------------------------------------
m('frac_pi_3_is_6', 'C11', ('src/dual2.rs',
  "    fn frac_pi_3() -> Self {\n        Self::from_re(<T as FloatConst>::FRAC_PI_3())",
  "    fn frac_pi_3() -> Self {\n        Self::from_re(<T as FloatConst>::FRAC_PI_6())"))
m('min_keeps_self', 'C11', ('src/dual_vec.rs',
  "    fn min(self, other: Self) -> Self {\n        if other < self {\n            other",
  "    fn min(self, other: Self) -> Self {\n        if other < self {\n            Self::from_re(other.re)"))
m('copysign_inverted', 'C11', ('src/dual.rs',
  "        if sign.re.is_sign_positive() {\n            self.simd_abs()", "        if sign.re.is_sign_negative() {\n            self.simd_abs()"))
# --- C12 -----------------------------------------------------------------------------
m('lu_parity', 'C12', ('src/linalg.rs',
  "                p_count += 1;", "                p_count += 2;"))
m('lu_pivot_on_eps', 'C12', ('src/linalg.rs',
  "                if abs_a.re() > max_a {\n                    max_a = abs_a.re();\n                    imax = k;",
  "                if abs_a.re() > max_a {\n                    max_a = abs_a.re();\n                    imax = i;"))
# --- C13 -----------------------------------------------------------------------------
m('is_in_subset_absent_false', 'C13', ('src/derivative.rs',
  "        element.0.as_ref().map_or(true, |matrix| {", "        element.0.as_ref().map_or(false, |matrix| {"))
m('from_subset_not_constant', 'C13', ('src/dual2.rs',
  "        let re = TSuper::from_subset(element);\n        let v1 = TSuper::zero();\n        let v2 = TSuper::zero();\n        Self::new(re, v1, v2)\n    }\n}\n\nimpl<TSuper, FSuper> SupersetOf<f64>",
  "        let re = TSuper::from_subset(element);\n        let v1 = TSuper::one();\n        let v2 = TSuper::zero();\n        Self::new(re, v1, v2)\n    }\n}\n\nimpl<TSuper, FSuper> SupersetOf<f64>"))
# --- C14 / C15 -----------------------------------------------------------------------
m('j0_branch_3', 'C14', ('src/bessel.rs',
  "        if self.re() <= 5.0 {\n            let z = self * self;\n            if self.re() < 1.0e-5 {",
  "        if self.re() <= 3.0 {\n            let z = self * self;\n            if self.re() < 1.0e-5 {"))
m('sph_series_coeff', 'C15', ('src/lib.rs',
  "        term = term * &z / F::from(2 * k * (2 * (k + n) + 1)).unwrap();",
  "        term = term * &z / F::from(2 * k * (2 * (k + n) - 1)).unwrap();"))
# --- C16 -----------------------------------------------------------------------------
m('serde_names_swapped', 'C16', ('src/dual2.rs',
  "    /// First derivative part of the second order dual number\n    pub v1: T,\n    /// Second derivative part of the second order dual number\n    pub v2: T,",
  "    /// First derivative part of the second order dual number\n    #[cfg_attr(feature = \"serde\", serde(rename = \"v2\"))]\n    pub v1: T,\n    /// Second derivative part of the second order dual number\n    #[cfg_attr(feature = \"serde\", serde(rename = \"v1\"))]\n    pub v2: T,"))
# --- C17 -----------------------------------------------------------------------------
m('py_sin_is_cos', 'C17', ('src/python_macro.rs',
  "            pub fn sin(&self) -> Self {\n                self.0.sin().into()", "            pub fn sin(&self) -> Self {\n                self.0.cos().into()"))
m('py_rsub_not_negated', 'C17', ('src/python_macro.rs',
  "                (-self.0.clone() + lhs).into()", "                (self.0.clone() - lhs).into()"))
m('py_getter_wrong_part', 'C17', ('src/python/dual3.rs',
  "    fn get_second_derivative(&self) -> f64 {\n        self.0.v2\n    }", "    fn get_second_derivative(&self) -> f64 {\n        self.0.v3\n    }"))
# --- C18 -----------------------------------------------------------------------------
m('display_dual_swapped', 'C18', ('src/dual.rs',
  '        write!(f, "{} + {}ε", self.re, self.eps)', '        write!(f, "{} + {}ε", self.eps, self.re)'))
m('display_hd_sign', 'C18', ('src/hyperdual.rs',
  "            self.re, self.eps1, self.eps2, self.eps1eps2\n", "            self.re, self.eps1, -self.eps2.clone(), self.eps1eps2\n"))
m('display_vec_drops_last', 'C18', ('src/derivative.rs',
  "                    let x: Vec<_> = m.iter().map(T::to_string).collect();", "                    let x: Vec<_> = m.iter().skip(1).map(T::to_string).collect();"))

# --- replacements for mutants that the pinned suite kills ---------------------------------
m('asinh_f2_abs', 'C01', (D,
  "second!($deriv, let f2 = -self.re.clone() * &f1 * &rec;);\n                third!($deriv, let f3 = (self.re.clone() * &self.re * (F::one() + F::one()) - F::one()) * &f1 * &rec * rec;);",
  "second!($deriv, let f2 = -self.re.abs() * &f1 * &rec;);\n                third!($deriv, let f3 = (self.re.clone() * &self.re * (F::one() + F::one()) - F::one()) * &f1 * &rec * rec;);"))
m('hdvec_div_dup', 'C02', ('src/hyperdual_vec.rs',
  "                - (&other.eps1eps2 * self.re.clone()\n                    + &self.eps1 * &other.eps2\n                    + &other.eps1 * &self.eps2)",
  "                - (&other.eps1eps2 * self.re.clone()\n                    + &self.eps1 * &other.eps2\n                    + &self.eps1 * &other.eps2)"))
m('deriv_sub_ref_none_some', 'C07', ('src/derivative.rs',
  "            (Some(s), None) => Some(s.clone()),\n            (None, Some(r)) => Some(-r),",
  "            (Some(s), None) => Some(s.clone()),\n            (None, Some(r)) => Some(r.clone()),"))
m('sub_assign_scalar_sign', 'C08', ('src/macros.rs',
  "            fn sub_assign(&mut self, other: F)  {\n                self.re -= other;",
  "            fn sub_assign(&mut self, other: F)  {\n                self.re += other;"))
m('j2_series_coeff', 'C14', ('src/bessel.rs',
  "                term = term * z / f64::from(k * (k + 2));", "                term = term * z / f64::from(k * (k + 1));"))


def apply(tree, edits):
    for path, old, new in edits:
        p = os.path.join(tree, path)
        s = open(p, newline='').read()
        if '\r\n' in s:
            old = old.replace('\n', '\r\n'); new = new.replace('\n', '\r\n')
        assert s.count(old) == 1, (path, s.count(old), old[:70])
        open(p, 'w', newline='').write(s.replace(old, new))


def main():
    tree, scratch = sys.argv[1], sys.argv[2]
    names = sys.argv[3:] or list(M)
    env = dict(os.environ, CARGO_NET_OFFLINE='true', CARGO_TARGET_DIR=os.path.join(scratch, 'target'),
               PYO3_PYTHON='/opt/veriftools/pyvenv/bin/python')
    for name in names:
        prop, edits = M[name]
        work = os.path.join(scratch, 'tree')
        shutil.rmtree(work, ignore_errors=True)
        shutil.copytree(tree, work, ignore=shutil.ignore_patterns('target', '.git'))
        try:
            apply(work, edits)
        except AssertionError as e:
            print(f'{name:28s} {prop} EDIT-FAILED {e}', flush=True); continue
        feats = []
        if any('python' in e[0] for e in edits): feats = ['--features', 'python']
        if any('linalg' in e[0] for e in edits): feats = ['--features', 'linalg']
        if name.startswith('serde'): feats = ['--features', 'serde']
        b = subprocess.run(['cargo', 'build', '--offline'] + feats, cwd=work, env=env, capture_output=True, text=True)
        if b.returncode != 0:
            print(f'{name:28s} {prop} COMPILE-ERROR\n' + b.stderr[-1500:], flush=True); continue
        t = subprocess.run(['cargo', 'test', '--workspace', '--no-fail-fast', '--offline', '--tests'], cwd=work, env=env,
                           capture_output=True, text=True)
        passed = sum(int(l.split()[3]) for l in t.stdout.splitlines() if l.startswith('test result:'))
        failed = sum(int(l.split()[5]) for l in t.stdout.splitlines() if l.startswith('test result:'))
        print(f'{name:28s} {prop} suite: passed={passed} failed={failed} -> ' + ('VALID' if failed == 0 and passed == 459 else 'KILLED-BY-SUITE'), flush=True)
        shutil.rmtree(work, ignore_errors=True)


if __name__ == '__main__':
    main()
