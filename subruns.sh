#!/bin/bash
# subruns.sh <Cxx> <seed>  - the sanitizer / fuzzer sub-runs of the thorough tier.
# Prints one JSON object (for NDV_EXTRA_EVIDENCE) on the LAST line of stdout; VIOLATION lines before it.
# exit 0: nothing found, 1: violation found, 2: a sub-run could not be carried out (inconclusive, reported in the JSON).
set -u
HERE="$(cd "$(dirname "$0")" && pwd)"
PROP="$1"; SEED="${2:-1}"
export CARGO_NET_OFFLINE=true
RUNS="${NDV_FUZZ_RUNS:-300000}"
status=0
json="{"
fuzz() { # target
  local T="$1"
  local C="$HERE/harness/fuzz/corpus/$T-$PROP-$SEED"
  rm -rf "$C"; mkdir -p "$C" "$HERE/harness/fuzz/stats"
  # a few random seed inputs next to the empty corpus (deterministic in the seed)
  python3 - "$C" "$SEED" <<'PY'
import random, sys
r = random.Random(int(sys.argv[2]))
for i in range(32):
    open(f"{sys.argv[1]}/seed{i}", "wb").write(bytes(r.getrandbits(8) for _ in range(r.choice([64, 200, 600, 1200]))))
PY
  local S="$HERE/harness/fuzz/stats/$T-$PROP.json"; rm -f "$S"
  local LOG="$HERE/harness/fuzz/stats/$T-$PROP.log"
  (cd "$HERE/harness" && NDV_FUZZ_ONLY="$PROP" NDV_FUZZ_STATS="$S" cargo +nightly fuzz run "$T" "$C" -- -runs="$RUNS" -seed="$SEED" -len_control=0 -max_len=1500 -artifact_prefix="$HERE/replays/" ) > "$LOG" 2>&1
  local rc=$?
  if grep -q "^VIOLATION" "$LOG"; then
    grep -E "^failure|^VIOLATION" "$LOG" | head -4
    status=1
  elif [ $rc -ne 0 ]; then
    if grep -qE "ERROR: AddressSanitizer|ERROR: LeakSanitizer|SUMMARY: .*Sanitizer" "$LOG"; then
      local A; A=$(grep -oE "$HERE/replays/(crash|leak|oom)-[0-9a-f]+" "$LOG" | head -1)
      grep -E "SUMMARY" "$LOG" | head -2
      echo "VIOLATION property=$PROP replay=${A:-$LOG}"
      status=1
    else
      tail -5 "$LOG" >&2
      [ $status -eq 0 ] && status=2
    fi
  fi
  local st="null"; [ -f "$S" ] && st=$(cat "$S")
  json="$json\"$T\": {\"runs_requested\": $RUNS, \"exit\": $rc, \"sanitizers\": \"ASan+LSan\", \"stats\": $st},"
  rm -rf "$C"
}
miri() {
  local N=8 PER=12 ok=0 bad=0
  local D="$HERE/harness/fuzz/stats"; mkdir -p "$D"
  # first invocation builds, the others wait on the build lock
  for i in $(seq 1 $N); do
    (cd "$HERE/harness" && MIRIFLAGS="-Zmiri-disable-isolation" cargo +nightly miri run -q -p ndv-core --target-dir "$HERE/harness/target/miri" -- C13 quick --direct $PER --seed $((SEED*100+i)) --no-evidence > "$D/miri-$i.log" 2>&1) &
  done
  wait
  for i in $(seq 1 $N); do
    if grep -q "violations=0" "$D/miri-$i.log" && ! grep -q "Undefined Behavior" "$D/miri-$i.log"; then ok=$((ok+1)); else
      bad=$((bad+1))
      if grep -qE "Undefined Behavior|^VIOLATION" "$D/miri-$i.log"; then
        grep -E "Undefined Behavior|^failure|^VIOLATION" "$D/miri-$i.log" | head -3
        grep -q "^VIOLATION" "$D/miri-$i.log" || echo "VIOLATION property=C13 replay=$D/miri-$i.log"
        status=1
      else
        tail -3 "$D/miri-$i.log" >&2; [ $status -eq 0 ] && status=2
      fi
    fi
  done
  json="$json\"miri\": {\"processes\": $N, \"direct_cases_each\": $PER, \"clean\": $ok, \"not_clean\": $bad},"
}
case "$PROP" in
  C02|C07|C08) fuzz fz_arith ;;
  C03|C06) fuzz fz_prog ;;
  C18) fuzz fz_display ;;
  C13) fuzz fz_convert; miri ;;
esac
json="${json%,}}"
echo "$json"
exit $status
