#!/usr/bin/env python3
"""Regenerates MANIFEST.json from the table below (kept in one place so it stays valid)."""
import json, subprocess
props = [json.loads(l) for l in open('/verif/properties.jsonl')]
ids = [p['id'] for p in props]
fix_commits = subprocess.run(['git','-C','/repo','log','--format=%h %s','d9cc95f..HEAD'],capture_output=True,text=True).stdout.strip().splitlines()

CHECKS = {
 # id: (technique, level text, level note, design ref)
 'C01': ("proptest generated-input search (61 types x 29 functions x stratified real parts incl. a wide-magnitude stratum 10^+-300/(order+1) and pure first-order seeds x arbitrary parts) plus a deterministic magnitude sweep (583 k points) against an independent reference Taylor algebra with running rounding bound",
         "Random/structured exploration with a sound numerical oracle: every part of f(x) is compared with the multivariate Faa di Bruno composition computed in an independent algebra, tolerance 32*u*e (measured worst ratio on the tree ~10). Finds wrong sign/coefficient/dropped/swapped term in any closed form or chain rule on any registered type; cannot prove absence.",
         "trusts libm leaf accuracy (~1 ulp), the ndv-oracle algebra (self-tested against mpmath tables), tolerance model; bounded to registered types (dims<=6, nesting<=3, order<=4)", "4-C01"),
 'C02': ("proptest search on dyadic grids with a bit-exact reference algebra (every + and * verified rounding-free by TwoSum/FMA residuals), exhaustive tensor grids for the 5 scalar f64 types, plus rounding-regime comparison with 32*u*e (incl. powi with 9 <= |n| <= 60000 on bases +-1)",
         "Exact differential oracle: on grid operands the library result must equal the independent truncated-Taylor algebra bit for bit in every part (incl. mixed parts, all presence patterns); complete tensor grids with deg+1 points per operand part are enumerated for Dual, Dual2, Dual3, HyperDual, HyperHyperDual (product, quotient, powi, recip), so agreement determines the polynomial/rational map there; vector/nested types are sampled (Schwartz-Zippel).",
         "assumes any algebraically correct evaluation order is rounding-free on the grid (<= 4 significant bits per part); vector and nested types sampled, not enumerated", "4-C02"),
 'C03': ("proptest generation of SSA expression DAGs (52 opcodes, sharing, constants, all operator forms) with a domain-repairing resolver, plus wide-magnitude composition templates f(c*t); mirror interpreter in the reference algebra with running rounding bound; every node compared",
         "Random program exploration with a sound oracle: each node of each generated program is compared part by part with the same program evaluated in the independent reference algebra (tolerance 32*u*e, e = first-order rounding bound of that program at that point), on all 61 registered types with arbitrary (non-unit, absent) input parts.",
         "program size <= 12 (quick) / 32 (thorough) nodes, |values| <= 1e6, fixed margins from singularities; magnitudes bounded as in DESIGN 3.7; e-model assumptions of DESIGN 3.3/3.4", "4-C03"),
 'C09': ("proptest over exponent strata (special cases, i32-overflow thresholds, +-2^k up to 2^30, values within ulps of 0/1/2, negative, non-integer, large, huge real exponents up to 1e300) with bases x=+-exp(t/n); reference generalized binomial Taylor data; metamorphic relations between powi/powf/powd/exp-ln/products/roots",
         "Stratified exploration with a numerical oracle (32*u*e with |n| units for repeated squaring) plus explicit cross-agreement of the three power functions, repeated multiplication/division, exp(n ln x), sqrt/cbrt/recip; fixed cases pin the i32 overflow thresholds.",
         "relative errors below |n|u for huge integer exponents are invisible; libm pow accurate to 1 ulp", "4-C09"),
 'C10': ("complete enumeration of the finite (function, special point, +-3 float neighbours and the negative zero) table on all scalar and nested static types with generic parts, plus proptest-generated parts/presence patterns on every type; reference Taylor data at the special point",
         "The special-point table is finite and enumerated completely per run (exhaustive sub-claim); every part must be finite and within 32*u*e of the exact Taylor data (powi/powf at 0 incl. denormal neighbours, sph/cyl Bessel at 0 and their switch points, atan2 on both axes, exp_m1/ln_1p at 0).",
         "results below the absolute floor 1e-270 (f64) / 1e-30 (f32) are not distinguished from 0; vector types sampled", "4-C10"),
 'C14': ("proptest over x in [-60,60] (strata: 0, tiny, +-3 floats around 1e-5 / 1 / 5 and the zeros of J0,J1,J2, rational and asymptotic branch, both signs) on all f64 Copy types up to 4th order; Miller-recurrence reference with derivative recurrences (validated against mpmath); parity relation",
         "Stratified exploration with an independent high-accuracy reference: value to 16u(1+|J|), derivative parts of order k to 2^(5+3k) u*sum|terms| (measured head-room >= 10x), parity of every part; catches wrong branch thresholds, coefficients beyond the schedule, sign/parity errors and lost higher-order parts.",
         "coefficient perturbations below the per-order schedule invisible; reference accurate to a few u", "4-C14"),
 'C15': ("proptest over x in [-50,50] (0, below eps down to 1e-300, +-3 floats around eps and 1, small, moderate, large, both signs) on all 61 types over f32/f64 plus a deterministic sweep of the plain-float instances; re-expanded Taylor series / closed-form series-arithmetic reference; real-part-vs-plain-float and parity relations",
         "Stratified exploration with an independent reference (32*u*e, e from the well-conditioned evaluation, so the closed forms' 1/x^k amplification is not granted), agreement of the dual real part with the plain float implementation, parity with negated parts.",
         "reference validated against mpmath tables (ndv selftest)", "4-C15"),
 'C04': ("proptest-generated programs evaluated on pairs of library types that expose the same derivatives (612 distinct type pairs per quick run: same reference algebra, static vs dynamic, f32 vs f64, vector vs scalar per direction), inputs mapped through the embedding table; differential comparison of every shared part of every node; plus generated functions whose partial derivatives up to third order are obtained through every driver / number-type route of the crate and compared pairwise",
         "Pure differential oracle between library types (tolerance 2*32 u e, e from the reference run), plus each side against the reference; NDERIV of all 61 registered types enumerated exhaustively.",
         "dimensions 0..6, nesting depth <= 3; partner types limited to the registry", "4-C04"),
 'C05': ("proptest-generated functions R^n -> R^m (shared expression DAG, m outputs) for all 20 drivers, static sizes {1,2,3,4,6}^2 and dynamic 0..6, generated index triples, failing closures with generated error values, wide-magnitude points (coordinates 10^e, |e| up to 290) with template functions; reference partials from unit-seeded reference algebra",
         "Exploration with an orientation-sensitive oracle: every component of every driver result is compared with the partial derivative read off the independently seeded reference algebra (non-symmetric functions, n != m), shapes checked, try_ variants compared bit for bit / error value propagated.",
         "static sizes limited to {1,2,3,4,6}; magnitudes bounded as in DESIGN 3.7", "4-C05"),
 'C06': ("metamorphic proptest (same real inputs, two independent part assignments -> bit-identical real parts of every node), differential against the plain f32/f64 evaluation of the same program, bit-exact comparison of the plain-float instances with std, and generated pairs incl. equal/adjacent/+-0/inf/NaN real parts for all predicates, comparison operators and min/max/clamp/copysign",
         "Metamorphic + differential exploration: finds any dependence of a real part on derivative parts, any comparison or predicate that looks at derivative parts, any float-instance method that deviates from std.",
         "signum at exact zeros excluded (discontinuity)", "4-C06"),
 'C07': ("proptest programs and compound-assignment histories on all types with optional parts; ALL 2^k absent/explicit-zero representations (k<=6) enumerated per case and compared part by part on every node; direct calls of the 18 operator impls of the Derivative container against plain matrices; driver functions (gradient, jacobian, try_jacobian, hessian, partial_hessian) on functions whose constants are absent or explicit zeros, all representations enumerated",
         "Exploration with per-case exhaustive enumeration of representations: numerical equality of every part of every node across representations, and agreement with the reference algebra.",
         "k <= 6 marked zero blocks per case; finite values", "4-C07"),
 'C08': ("proptest over 15 form families (owned/borrowed/mixed/assign forms, scalar forms, inv, Sum/Product owned and borrowed incl. empty, mul_add, From<F>, 14 FromPrimitive constructors, Zero/One/16 FloatConst) on all 61 types via HRTB-generic instantiation; bit-for-bit equality between forms, base form against the reference algebra; wide-magnitude scalars (|s| = 10^e, |e| <= 290) against the correctly rounded part*s, part/s",
         "Differential exploration between syntactic forms (bit-exact; multiplicative scalar forms 16 u) anchored to the reference algebra so that all forms being equally wrong cannot pass.",
         "presence patterns of results are not compared (C07)", "4-C08"),
 'C11': ("proptest over 48 method groups of ComplexField/RealField/SimdValue on the 26 field-compatible instantiations; forwarders bit-equal to the generic dual operation, composed methods against the reference algebra, real parts against the same method on plain floats, selection methods return the selected operand's own parts (equal, adjacent and signed-zero real parts); constants enumerated exhaustively",
         "Differential exploration (dual op / plain float / reference algebra) of nalgebra's field contract incl. equal and adjacent real parts for selection and every presence pattern for the single-lane SIMD view.",
         "floor/ceil/round/trunc/fract panic by design and are excluded", "4-C11"),
 'C12': ("proptest-generated matrices with known condition number / eigenvalue gaps (Givens products, row permutations of both parities) and exact singular constructions, power-of-two scalings 2^k, |k| <= 60; validity predicates (A x = b, A A^-1 = I, Leibniz determinant, A V = V L, V^T V = I, ascending order) evaluated on the library output in the reference algebra with conditioning-scaled tolerances",
         "Exploration with validity-predicate oracles in every derivative part for the crate's LU/Jacobi/norm (5 scalar types) and nalgebra's generic LU/inverse/determinant/symmetric_eigen (4 field types); singular matrices must be reported.",
         "derivative parts of nalgebra's symmetric_eigen beyond the conditioning-scaled tolerance are the known finding C12/na-symmetric-eigen/derivative-parts (excluded and counted; KNOWN-FINDING line)", "4-C12"),
 'C13': ("proptest over the four convertible types x {f32,f64}^2 x static/dynamic dimensions 0..6 x presence patterns x special values (NaN, inf, non-f32-representable) incl. nested heap-allocated element types; round-trip / coherence oracles for SubsetOf/SupersetOf, nalgebra convert/try_convert/cast; counting-allocator leak oracle; same check under libFuzzer+ASan and Miri (thorough)",
         "Exploration with exact oracles (per-part `as` conversion, presence kept, from_superset.is_some() == is_in_subset for every value) plus memory-safety evidence from a leak-counting allocator on every case, ASan/LSan fuzzing and Miri on a generated subset.",
         "memory safety only as strong as the sanitizers on generated inputs; not a proof about the unsafe blocks", "4-C13"),
 'C16': ("proptest over 20 serializable scalar/nested types with arbitrary finite bit patterns; exact structural comparison of the serialized serde_json::Value with the documented fields, bit-exact round trip through Value and JSON text, metamorphic key-reordering and value-swapping",
         "Round-trip and structure exploration: every part restored bit for bit, exactly the documented field names and nothing else, fields bound by name.",
         "serde_json (float_roundtrip) is the only data format", "4-C16"),
 'C18': ("proptest over all 61 types with arbitrary finite bit patterns and presence patterns; Display output tokenised (numbers, symbol runs) and matched token by token against the sequence derived from the type structure; every number parsed back bit-exactly",
         "Round-trip exploration of the textual rendering: no part dropped, duplicated, swapped, sign-flipped or altered; documented symbols in fixed order; absent parts omitted.",
         "separators and the nalgebra matrix box are not part of the oracle", "4-C18"),
 'C17': ("proptest-generated programs rendered to Python source and executed in an embedded CPython against the built-in extension module; differential comparison (bit-for-bit floats through getters/driver tuples, string equality of repr of every node) with the generic Rust interpreter on the corresponding Rust type / driver",
         "Differential exploration of the binding layer: 8 scalar classes with arbitrary constructor parts and 10 driver functions with 1..12 variables (fixed-size and dynamic classes), operators with dual/float/int operands on either side, ** with int/float/dual exponents, named functions, getters, repr; the jacobian size limit is asserted as TypeError.",
         "needs the CPython 3.11 shared library and numpy of the tooling venv (exit 2 if missing); numpy-array operands not exercised", "4-C17"),
}
checks = []
for i in ids:
    if i in CHECKS:
        tech, text, note, ref = CHECKS[i]
        checks.append({
            "property_id": i,
            "quick_cmd": f"./check {i} quick",
            "thorough_cmd": f"./check {i} thorough",
            "evidence_file": f"/verif/evidence/{i}.json",
            "replay_cmd_template": f"./check {i} --replay {{path}}",
            "engine": "ndv-py" if i == "C17" else "ndv",
            "level_claimed": {"category": "exploration", "text": text, "design_ref": ref},
            "level_note": note,
            "technique": tech,
        })
na = [{"property_id": i, "reason": "check not built yet in this round (planned, see DESIGN.md section 4); not claimed until it is sensitive and silent"} for i in ids if i not in CHECKS]
m = {
 "version": 1,
 "setup_cmd": "cd /verif/harness && CARGO_NET_OFFLINE=true cargo build --offline && cd /verif/harness-py && CARGO_NET_OFFLINE=true cargo build --offline",
 "hooks": {"guard": "none", "enable": "no hooks: every observation point is public API; checks build /repo as a path dependency with features linalg, serde (and python for C17)",
           "baseline_off_cmd": "cd /repo && cargo test --workspace --no-fail-fast --offline", "source_commits": [], "add_only": True},
 "engines": [{"name": "ndv", "path": "/verif/harness", "serves_properties": [c["property_id"] for c in checks if c["property_id"] != "C17"], "kind_free_text": "Rust binary driving proptest TestRunner (fixed seeds, 16 shards, shrinking) against the ndv-oracle reference algebra"}, {"name": "ndv-py", "path": "/verif/harness-py", "serves_properties": ["C17"], "kind_free_text": "Rust binary embedding CPython 3.11 (num-dual feature python registered as built-in module), same proptest engine"}],
 "checks": checks,
 "notes": "fix: commits in /repo (genuine defects found by the checks, see known_findings.json and DESIGN.md section 5): " + "; ".join(fix_commits),
 "not_applicable": na,
}
json.dump(m, open('/verif/MANIFEST.json','w'), indent=1)
print("checks:", [c['property_id'] for c in checks])
