#!/usr/bin/env python3
"""Regenerates MANIFEST.json from the table below (kept in one place so it stays valid)."""
import json, subprocess
props = [json.loads(l) for l in open('/verif/properties.jsonl')]
ids = [p['id'] for p in props]
fix_commits = subprocess.run(['git','-C','/repo','log','--format=%h %s','d9cc95f..HEAD'],capture_output=True,text=True).stdout.strip().splitlines()

CHECKS = {
 # id: (technique, level text, level note, design ref)
 'C01': ("proptest generated-input search (58 types x 29 functions x stratified real parts x arbitrary parts) against an independent reference Taylor algebra with running rounding bound",
         "Random/structured exploration with a sound numerical oracle: every part of f(x) is compared with the multivariate Faa di Bruno composition computed in an independent algebra, tolerance 32*u*e (measured worst ratio on the tree ~10). Finds wrong sign/coefficient/dropped/swapped term in any closed form or chain rule on any registered type; cannot prove absence.",
         "trusts libm leaf accuracy (~1 ulp), the ndv-oracle algebra (self-tested against mpmath tables), tolerance model; bounded to registered types (dims<=6, nesting<=3, order<=4)", "4-C01"),
}
checks = []
for i in ids:
    if i in CHECKS:
        tech, text, note, ref = CHECKS[i]
        checks.append({
            "property_id": i,
            "quick_cmd": f"./check {i} quick",
            "thorough_cmd": f"./check {i} thorough",
            "evidence_file": f"/verif/evidence/{i}.json",
            "replay_cmd_template": f"./check {i} --replay {{path}}",
            "engine": "ndv",
            "level_claimed": {"category": "exploration", "text": text, "design_ref": ref},
            "level_note": note,
            "technique": tech,
        })
na = [{"property_id": i, "reason": "check not built yet in this round (planned, see DESIGN.md section 4); not claimed until it is sensitive and silent"} for i in ids if i not in CHECKS]
m = {
 "version": 1,
 "setup_cmd": "cd /verif/harness && CARGO_NET_OFFLINE=true cargo build --offline",
 "hooks": {"guard": "none", "enable": "no hooks: every observation point is public API; checks build /repo as a path dependency with features linalg, serde (and python for C17)",
           "baseline_off_cmd": "cd /repo && cargo test --workspace --no-fail-fast --offline", "source_commits": [], "add_only": True},
 "engines": [{"name": "ndv", "path": "/verif/harness", "serves_properties": [c["property_id"] for c in checks], "kind_free_text": "Rust binary driving proptest TestRunner (fixed seeds, 16 shards, shrinking) against the ndv-oracle reference algebra"}],
 "checks": checks,
 "notes": "fix: commits in /repo (genuine defects found by the checks, see known_findings.json and DESIGN.md section 5): " + "; ".join(fix_commits),
 "not_applicable": na,
}
json.dump(m, open('/verif/MANIFEST.json','w'), indent=1)
print("checks:", [c['property_id'] for c in checks])
