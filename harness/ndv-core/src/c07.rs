//! C07 - absent derivative parts behave exactly like all-zero derivative parts.

use crate::c03::{self, raw_op, run_program};
use crate::common::*;
use crate::engine::*;
use crate::prog::*;
use crate::registry::{dispatch, TyVisitor, TYPES};
use crate::types::{Flat, Flt, Layout, Ty};
use nalgebra::{DMatrix, Dyn};
use num_dual::{Derivative, DualNum};
use proptest::prelude::*;
use serde::{Deserialize, Serialize};
use serde_json::json;

#[derive(Clone, Debug, Serialize, Deserialize)]
pub struct Case {
    pub ty: usize,
    pub dims: (u8, u8),
    pub x: Vec<f64>,
    pub raw: Vec<RawOp>,
    pub parts: Vec<Vec<f64>>,
    /// per input, per block: the block is all-zero (and therefore may be represented as absent)
    pub zero: Vec<Vec<bool>>,
    /// direct test of the Derivative container: (op, rows, cols, inner, a entries, b entries, scalar)
    pub deriv: Option<DerivCase>,
}

#[derive(Clone, Debug, Serialize, Deserialize)]
pub struct DerivCase {
    pub op: u8,
    pub rows: u8,
    pub cols: u8,
    pub inner: u8,
    pub a: Vec<i8>,
    pub b: Vec<i8>,
    pub a_zero: bool,
    pub b_zero: bool,
    pub s: i8,
}

pub struct C07;

/// types with optional parts
pub fn optional_types() -> Vec<usize> {
    (0..TYPES.len()).filter(|t| TYPES[*t].optional).collect()
}

struct V<'a> {
    case: &'a Case,
    st: &'a mut Stats,
}

fn numerically_equal(a: &Flat, b: &Flat) -> Option<usize> {
    for i in 0..a.vals.len() {
        let (x, y) = (a.vals[i], b.vals[i]);
        if !(x == y) {
            return Some(i);
        }
    }
    None
}

impl<'a> TyVisitor for V<'a> {
    type Out = Verdict;
    fn visit<T>(self, dims: &[usize]) -> Verdict
    where
        T: Ty + DualNum<<T as Ty>::F>,
    {
        let case = self.case;
        let st = self.st;
        let lay = T::layout(dims);
        let nb = lay.blocks.len();
        if nb == 0 {
            return Verdict::Trivial("type without optional parts");
        }
        let xr: Vec<f64> = case.x.iter().map(|x| round_to::<T::F>(*x)).collect();
        let (prog, _) = resolve(&xr, &case.raw, 1);
        // base inputs: every block present, marked blocks all-zero
        let mut marked: Vec<(usize, usize)> = vec![];
        let mut base: Vec<Flat> = vec![];
        for (i, x) in xr.iter().enumerate() {
            let z = &case.zero[i % case.zero.len()];
            let zb: Vec<bool> = (0..nb).map(|b| z[b % z.len()]).collect();
            let f = make_flat::<T::F>(&lay, *x, &case.parts[i % case.parts.len()], &[true], &zb);
            for (b, isz) in zb.iter().enumerate() {
                // a block nested inside a zero block is zero as well; mark only top-level zero blocks and
                // nested ones whose parent is present
                if *isz && marked.len() < 6 {
                    marked.push((i, b));
                }
            }
            base.push(f);
        }
        if marked.is_empty() {
            return Verdict::Trivial("no zero part to represent as absent");
        }
        let k = marked.len();
        // reference comparison on the explicit-zero representation
        let v0 = run_program::<T>(dims, &prog, &base, st, "C07");
        match v0 {
            Verdict::Pass { .. } => {}
            other => return other,
        }
        let xs0: Vec<T> = base.iter().map(|f| T::from_flat(dims, f)).collect();
        let lib0: Vec<Flat> = eval_lib::<T, T::F>(&prog, &xs0).iter().map(|v| v.to_flat(dims)).collect();
        if lib0.iter().any(|f| f.vals.iter().any(|v| !v.is_finite())) {
            return Verdict::Trivial("non-finite intermediate (0*inf is out of domain)");
        }
        let mut met = false;
        for mask in 1u32..(1 << k) {
            let mut inp = base.clone();
            for (bit, (i, b)) in marked.iter().enumerate() {
                if mask >> bit & 1 == 1 {
                    inp[*i].pres[*b] = false;
                }
            }
            let xs: Vec<T> = inp.iter().map(|f| T::from_flat(dims, f)).collect();
            let lib = eval_lib::<T, T::F>(&prog, &xs);
            for (n, v) in lib.iter().enumerate() {
                let f = v.to_flat(dims);
                if f.vals.iter().any(|v| !v.is_finite()) {
                    return Verdict::Trivial("non-finite intermediate (0*inf is out of domain)");
                }
                if let Some(slot) = numerically_equal(&lib0[n], &f) {
                    return Verdict::Fail {
                        sig: format!("C07/{}/order{}", c03::op_name(&prog.ops[n]), lay.slots[slot].order),
                        why: format!(
                            "{}: node n{n} ({}) part {} is {:e} with explicit zeros but {:e} when input blocks {:?} are absent; program: {}; inputs {:?}",
                            T::tname(dims),
                            c03::op_name(&prog.ops[n]),
                            lay.slots[slot].name,
                            lib0[n].vals[slot],
                            f.vals[slot],
                            marked.iter().enumerate().filter(|(bit, _)| mask >> bit & 1 == 1).map(|(_, (i, b))| format!("x{i}.{}", lay.blocks[*b].name)).collect::<Vec<_>>(),
                            render(&prog),
                            base.iter().map(|f| flat_json(&lay, f)).collect::<Vec<_>>()
                        ),
                    };
                }
            }
            // non-triviality: an absent block on the left meets a present block on the right in - * /
            if !met {
                let fl: Vec<Flat> = lib.iter().map(|v| v.to_flat(dims)).collect();
                for op in &prog.ops {
                    if let Op::Bin(b, _, l, r) = op {
                        if matches!(b, Bin::Sub | Bin::Mul | Bin::Div) && meets(&lay, &fl[*l], &fl[*r]) {
                            met = true;
                        }
                    }
                }
            }
        }
        st.count("representations_compared", (1u64 << k) - 1);
        st.class(&format!("marked_zero_blocks:{k}"));
        st.class(&format!("type:{}", TYPES[case.ty].name));
        if met && st.wants_sample() {
            st.sample(|| json!({"type": T::tname(dims), "program": render(&prog), "inputs_with_explicit_zeros": base.iter().map(|f| flat_json(&lay, f)).collect::<Vec<_>>(),
                "marked_blocks": marked.iter().map(|(i, b)| format!("x{i}.{}", lay.blocks[*b].name)).collect::<Vec<_>>(), "representations": 1u64 << k}));
        }
        Verdict::Pass { nontrivial: met }
    }
}

fn meets(lay: &Layout, l: &Flat, r: &Flat) -> bool {
    (0..lay.blocks.len()).any(|b| !l.pres[b] && r.pres[b])
}

/// Direct test of the operator impls of the public `Derivative` container against plain matrices.
fn deriv_case(d: &DerivCase, st: &mut Stats) -> Verdict {
    let rows = (d.rows % 3 + 1) as usize;
    let cols = (d.cols % 3 + 1) as usize;
    let inner = (d.inner % 3 + 1) as usize;
    type Dv = Derivative<f64, f64, Dyn, Dyn>;
    let mat = |r: usize, c: usize, src: &[i8], zero: bool| -> DMatrix<f64> { DMatrix::from_fn(r, c, |i, j| if zero { 0.0 } else { src[(i * c + j) % src.len()] as f64 / 4.0 }) };
    let op = d.op % 18;
    // shapes: matrix product uses (rows x inner) * (inner x cols); tr_mul (inner x rows)^T * (inner x cols)
    let (ar, ac, br, bc) = match op {
        6 => (rows, inner, inner, cols),
        7 => (inner, rows, inner, cols),
        _ => (rows, cols, rows, cols),
    };
    let am = mat(ar, ac, &d.a, d.a_zero);
    let bm = mat(br, bc, &d.b, d.b_zero);
    let mut s = d.s as f64 / 4.0;
    if s == 0.0 {
        s = 0.75;
    }
    // model with plain matrices
    let model: DMatrix<f64> = match op {
        0 | 1 | 2 | 14 => &am + &bm,
        3 | 4 | 5 | 15 => &am - &bm,
        6 => &am * &bm,
        7 => am.tr_mul(&bm),
        8 | 9 | 16 => &am * s,
        10 | 11 | 17 => &am / s,
        _ => -&am,
    };
    let (rr, rc) = (model.nrows(), model.ncols());
    // all representations: an all-zero operand may be absent
    let a_reps: Vec<bool> = if d.a_zero { vec![false, true] } else { vec![false] };
    let b_reps: Vec<bool> = if d.b_zero { vec![false, true] } else { vec![false] };
    for a_abs in &a_reps {
        for b_abs in &b_reps {
            let a: Dv = if *a_abs { Derivative::none() } else { Derivative::some(am.clone()) };
            let b: Dv = if *b_abs { Derivative::none() } else { Derivative::some(bm.clone()) };
            let res: Dv = match op {
                0 => a.clone() + b.clone(),
                1 => a.clone() + &b,
                2 => &a + &b,
                3 => a.clone() - b.clone(),
                4 => a.clone() - &b,
                5 => &a - &b,
                6 => &a * &b,
                7 => a.tr_mul(&b),
                8 => a.clone() * s,
                9 => &a * s,
                10 => a.clone() / s,
                11 => &a / s,
                12 => -a.clone(),
                13 => -&a,
                14 => {
                    let mut t = a.clone();
                    t += b.clone();
                    t
                }
                15 => {
                    let mut t = a.clone();
                    t -= b.clone();
                    t
                }
                16 => {
                    let mut t = a.clone();
                    t *= s;
                    t
                }
                _ => {
                    let mut t = a.clone();
                    t /= s;
                    t
                }
            };
            let got = res.unwrap_generic(Dyn(rr), Dyn(rc));
            if got.shape() != model.shape() || got.iter().zip(model.iter()).any(|(x, y)| !(x == y)) {
                return Verdict::Fail {
                    sig: format!("C07/derivative-container/op{op}"),
                    why: format!("Derivative operator #{op} with a {} and b {}: got {:?}, plain matrices give {:?} (a = {:?}, b = {:?}, s = {s})", if *a_abs { "absent" } else { "present" }, if *b_abs { "absent" } else { "present" }, got.as_slice(), model.as_slice(), am.as_slice(), bm.as_slice()),
                };
            }
        }
    }
    st.class(&format!("derivative-container op{op}"));
    Verdict::Pass { nontrivial: (d.a_zero ^ d.b_zero) && matches!(op, 3 | 4 | 5 | 15 | 6 | 7) }
}

fn history_op() -> impl Strategy<Value = RawOp> {
    // compound assignments and scalar ops applied to the accumulator (the last node)
    let code = prop_oneof![8 => 42u8..46, 4 => 46u8..50, 3 => 34u8..42, 2 => 0u8..24, 1 => Just(51u8)];
    (code, any::<u16>(), any::<u16>(), -1.0f64..1.0, any::<i8>()).prop_map(|(code, b, c, k, n)| RawOp { code, a: u16::MAX, b, c, k, n })
}

impl Property for C07 {
    type Case = Case;
    const ID: &'static str = "C07";
    fn strategy(tier: Tier) -> BoxedStrategy<Case> {
        let types = optional_types();
        let nt = types.len();
        let max_nodes = if tier == Tier::Quick { 8 } else { 16 };
        let raw = prop_oneof![proptest::collection::vec(raw_op(), 1..=max_nodes), proptest::collection::vec(history_op(), 1..=max_nodes),];
        let prog_case = (
            (0..nt, dims_strategy()),
            proptest::collection::vec(c03::input_real(), 1..=3),
            raw,
            proptest::collection::vec(parts_pool(), 3),
            proptest::collection::vec(proptest::collection::vec(proptest::bool::weighted(0.45), 3), 3),
        )
            .prop_map(move |((ti, dims), x, raw, parts, zero)| Case { ty: types[ti], dims, x, raw, parts, zero, deriv: None });
        let dcase = (
            (0u8..18, any::<u8>(), any::<u8>(), any::<u8>()),
            proptest::collection::vec(-16i8..=16, 9),
            proptest::collection::vec(-16i8..=16, 9),
            (any::<bool>(), any::<bool>(), -8i8..=8),
        )
            .prop_map(|((op, rows, cols, inner), a, b, (a_zero, b_zero, s))| Case {
                ty: 11,
                dims: (0, 0),
                x: vec![1.0],
                raw: vec![],
                parts: vec![vec![0.0]],
                zero: vec![vec![false]],
                deriv: Some(DerivCase { op, rows, cols, inner, a, b, a_zero, b_zero, s }),
            });
        prop_oneof![9 => prog_case, 1 => dcase].boxed()
    }
    fn check(case: &Case, st: &mut Stats) -> Verdict {
        if let Some(d) = &case.deriv {
            if d.a.is_empty() || d.b.is_empty() {
                return Verdict::Trivial("malformed case");
            }
            return deriv_case(d, st);
        }
        if case.ty >= TYPES.len()
            || case.x.is_empty()
            || case.x.len() > 3
            || case.raw.is_empty()
            || case.parts.is_empty()
            || case.parts.iter().any(|p| p.is_empty())
            || case.zero.is_empty()
            || case.zero.iter().any(|p| p.is_empty())
            || case.x.iter().any(|x| !x.is_finite() || x.abs() > 1e3)
            || case.raw.iter().any(|r| !r.k.is_finite() || r.k.abs() > 1.0)
        {
            return Verdict::Trivial("malformed case");
        }
        let dims = [case.dims.0 as usize, case.dims.1 as usize];
        dispatch(case.ty, &dims, V { case, st })
    }
    fn cases(tier: Tier) -> u64 {
        match tier {
            Tier::Quick => 200_000,
            Tier::Thorough => 5_000_000,
        }
    }
    fn rule() -> String {
        "generated: a program (as in C03) or a HISTORY (a sequence of compound assignments += -= *= /= with dual and scalar right-hand sides, scalar ops and unary functions applied to an accumulator) on every type with optional parts (DualVec, Dual2Vec, HyperDualVec static and dynamic, nested ones); inputs whose optional blocks are all-zero with probability 45% are marked, and ALL 2^k representations (absent vs explicit zeros) of the k <= 6 marked blocks are enumerated per case. Oracle: every part of EVERY node (unwrap_generic) is numerically equal (==, so -0 = +0) across all representations, and the explicit-zero representation equals the reference algebra (32 u e). 10% of the cases call the operator impls of the public Derivative container directly (18 operator impls incl. &a-&b, tr_mul, scalar ops, compound assignments, all shapes 1..3 x 1..3) against plain nalgebra matrices. Cases with a non-finite intermediate are out of domain. Non-trivial: in some representation an absent block of the left operand meets a present block of the right operand in -, * or /.".into()
    }
    fn assumptions() -> Vec<String> {
        vec!["k <= 6 marked blocks per case; values finite".into()]
    }
}
