//! C07 - absent derivative parts behave exactly like all-zero derivative parts.

use crate::c03::{self, raw_op, run_program};
use crate::common::*;
use crate::engine::*;
use crate::prog::*;
use crate::registry::{dispatch, TyVisitor, TYPES};
use crate::types::{Flat, Flt, Layout, Ty};
use nalgebra::{DMatrix, Dyn};
use num_dual::{Derivative, DualNum};
use proptest::prelude::*;
use serde::{Deserialize, Serialize};
use serde_json::json;

#[derive(Clone, Debug, Serialize, Deserialize)]
pub struct Case {
    pub ty: usize,
    pub dims: (u8, u8),
    pub x: Vec<f64>,
    pub raw: Vec<RawOp>,
    pub parts: Vec<Vec<f64>>,
    /// per input, per block: the block is all-zero (and therefore may be represented as absent)
    pub zero: Vec<Vec<bool>>,
    /// direct test of the Derivative container: (op, rows, cols, inner, a entries, b entries, scalar)
    pub deriv: Option<DerivCase>,
    /// driver functions called with closures whose constants are absent / explicit zeros
    #[serde(default)]
    pub drv: Option<DrvCase>,
}

#[derive(Clone, Debug, Serialize, Deserialize)]
pub struct DrvCase {
    /// 0 gradient, 1 jacobian, 2 hessian, 3 partial_hessian
    pub driver: u8,
    pub n: u8,
    pub n2: u8,
    pub m: u8,
    /// static sizes (2 and 3) instead of dynamic ones
    pub stat: bool,
    pub x: Vec<f64>,
    /// constants of the function (1..=2), handed to the program as extra inputs
    pub consts: Vec<f64>,
    pub raw: Vec<RawOp>,
    /// per output: 0/1 a program node, 2 a constant, 3 a variable
    pub outsel: Vec<u8>,
}

#[derive(Clone, Debug, Serialize, Deserialize)]
pub struct DerivCase {
    pub op: u8,
    pub rows: u8,
    pub cols: u8,
    pub inner: u8,
    pub a: Vec<i8>,
    pub b: Vec<i8>,
    pub a_zero: bool,
    pub b_zero: bool,
    pub s: i8,
}

pub struct C07;

/// types with optional parts
pub fn optional_types() -> Vec<usize> {
    (0..TYPES.len()).filter(|t| TYPES[*t].optional).collect()
}

struct V<'a> {
    case: &'a Case,
    st: &'a mut Stats,
}

fn numerically_equal(a: &Flat, b: &Flat) -> Option<usize> {
    for i in 0..a.vals.len() {
        let (x, y) = (a.vals[i], b.vals[i]);
        if !(x == y) {
            return Some(i);
        }
    }
    None
}

impl<'a> TyVisitor for V<'a> {
    type Out = Verdict;
    fn visit<T>(self, dims: &[usize]) -> Verdict
    where
        T: Ty + DualNum<<T as Ty>::F>,
    {
        let case = self.case;
        let st = self.st;
        let lay = T::layout(dims);
        let nb = lay.blocks.len();
        if nb == 0 {
            return Verdict::Trivial("type without optional parts");
        }
        let xr: Vec<f64> = case.x.iter().map(|x| round_to::<T::F>(*x)).collect();
        let (prog, _) = resolve(&xr, &case.raw, 1);
        // base inputs: every block present, marked blocks all-zero
        let mut marked: Vec<(usize, usize)> = vec![];
        let mut base: Vec<Flat> = vec![];
        for (i, x) in xr.iter().enumerate() {
            let z = &case.zero[i % case.zero.len()];
            let zb: Vec<bool> = (0..nb).map(|b| z[b % z.len()]).collect();
            let f = make_flat::<T::F>(&lay, *x, &case.parts[i % case.parts.len()], &[true], &zb);
            for (b, isz) in zb.iter().enumerate() {
                // a block nested inside a zero block is zero as well; mark only top-level zero blocks and
                // nested ones whose parent is present
                if *isz && marked.len() < 6 {
                    marked.push((i, b));
                }
            }
            base.push(f);
        }
        if marked.is_empty() {
            return Verdict::Trivial("no zero part to represent as absent");
        }
        let k = marked.len();
        // reference comparison on the explicit-zero representation
        let v0 = run_program::<T>(dims, &prog, &base, st, "C07");
        match v0 {
            Verdict::Pass { .. } => {}
            other => return other,
        }
        let xs0: Vec<T> = base.iter().map(|f| T::from_flat(dims, f)).collect();
        let lib0: Vec<Flat> = eval_lib::<T, T::F>(&prog, &xs0).iter().map(|v| v.to_flat(dims)).collect();
        if lib0.iter().any(|f| f.vals.iter().any(|v| !v.is_finite())) {
            return Verdict::Trivial("non-finite intermediate (0*inf is out of domain)");
        }
        let mut met = false;
        for mask in 1u32..(1 << k) {
            let mut inp = base.clone();
            for (bit, (i, b)) in marked.iter().enumerate() {
                if mask >> bit & 1 == 1 {
                    inp[*i].pres[*b] = false;
                }
            }
            let xs: Vec<T> = inp.iter().map(|f| T::from_flat(dims, f)).collect();
            let lib = eval_lib::<T, T::F>(&prog, &xs);
            for (n, v) in lib.iter().enumerate() {
                let f = v.to_flat(dims);
                if f.vals.iter().any(|v| !v.is_finite()) {
                    return Verdict::Trivial("non-finite intermediate (0*inf is out of domain)");
                }
                if let Some(slot) = numerically_equal(&lib0[n], &f) {
                    return Verdict::Fail {
                        sig: format!("C07/{}/order{}", c03::op_name(&prog.ops[n]), lay.slots[slot].order),
                        why: format!(
                            "{}: node n{n} ({}) part {} is {:e} with explicit zeros but {:e} when input blocks {:?} are absent; program: {}; inputs {:?}",
                            T::tname(dims),
                            c03::op_name(&prog.ops[n]),
                            lay.slots[slot].name,
                            lib0[n].vals[slot],
                            f.vals[slot],
                            marked.iter().enumerate().filter(|(bit, _)| mask >> bit & 1 == 1).map(|(_, (i, b))| format!("x{i}.{}", lay.blocks[*b].name)).collect::<Vec<_>>(),
                            render(&prog),
                            base.iter().map(|f| flat_json(&lay, f)).collect::<Vec<_>>()
                        ),
                    };
                }
            }
            // non-triviality: an absent block on the left meets a present block on the right in - * /
            if !met {
                let fl: Vec<Flat> = lib.iter().map(|v| v.to_flat(dims)).collect();
                for op in &prog.ops {
                    if let Op::Bin(b, _, l, r) = op {
                        if matches!(b, Bin::Sub | Bin::Mul | Bin::Div) && meets(&lay, &fl[*l], &fl[*r]) {
                            met = true;
                        }
                    }
                }
            }
        }
        st.count("representations_compared", (1u64 << k) - 1);
        st.class(&format!("marked_zero_blocks:{k}"));
        st.class(&format!("type:{}", TYPES[case.ty].name));
        if met && st.wants_sample() {
            st.sample(|| json!({"type": T::tname(dims), "program": render(&prog), "inputs_with_explicit_zeros": base.iter().map(|f| flat_json(&lay, f)).collect::<Vec<_>>(),
                "marked_blocks": marked.iter().map(|(i, b)| format!("x{i}.{}", lay.blocks[*b].name)).collect::<Vec<_>>(), "representations": 1u64 << k}));
        }
        Verdict::Pass { nontrivial: met }
    }
}

fn meets(lay: &Layout, l: &Flat, r: &Flat) -> bool {
    (0..lay.blocks.len()).any(|b| !l.pres[b] && r.pres[b])
}

/// Direct test of the operator impls of the public `Derivative` container against plain matrices.
fn deriv_case(d: &DerivCase, st: &mut Stats) -> Verdict {
    let rows = (d.rows % 3 + 1) as usize;
    let cols = (d.cols % 3 + 1) as usize;
    let inner = (d.inner % 3 + 1) as usize;
    type Dv = Derivative<f64, f64, Dyn, Dyn>;
    let mat = |r: usize, c: usize, src: &[i8], zero: bool| -> DMatrix<f64> { DMatrix::from_fn(r, c, |i, j| if zero { 0.0 } else { src[(i * c + j) % src.len()] as f64 / 4.0 }) };
    let op = d.op % 23;
    // shapes: matrix product uses (rows x inner) * (inner x cols); tr_mul (inner x rows)^T * (inner x cols)
    let (ar, ac, br, bc) = match op {
        6 => (rows, inner, inner, cols),
        7 => (inner, rows, inner, cols),
        _ => (rows, cols, rows, cols),
    };
    let am = mat(ar, ac, &d.a, d.a_zero);
    let bm = mat(br, bc, &d.b, d.b_zero);
    let mut s = d.s as f64 / 4.0;
    if s == 0.0 {
        s = 0.75;
    }
    // model with plain matrices
    let model: DMatrix<f64> = match op {
        0 | 1 | 2 | 14 => &am + &bm,
        3 | 4 | 5 | 15 => &am - &bm,
        6 => &am * &bm,
        7 => am.tr_mul(&bm),
        8 | 9 | 16 => &am * s,
        10 | 11 | 17 => &am / s,
        // single-lane SimdValue view: replace(0, b) = select(false, a, b) = b; extract(0) = splat(a) = select(true, a, b) = a
        18 | 22 => bm.clone(),
        19 | 20 | 21 => am.clone(),
        _ => -&am,
    };
    let (rr, rc) = (model.nrows(), model.ncols());
    // all representations: an all-zero operand may be absent
    let a_reps: Vec<bool> = if d.a_zero { vec![false, true] } else { vec![false] };
    let b_reps: Vec<bool> = if d.b_zero { vec![false, true] } else { vec![false] };
    for a_abs in &a_reps {
        for b_abs in &b_reps {
            let a: Dv = if *a_abs { Derivative::none() } else { Derivative::some(am.clone()) };
            let b: Dv = if *b_abs { Derivative::none() } else { Derivative::some(bm.clone()) };
            let res: Dv = match op {
                0 => a.clone() + b.clone(),
                1 => a.clone() + &b,
                2 => &a + &b,
                3 => a.clone() - b.clone(),
                4 => a.clone() - &b,
                5 => &a - &b,
                6 => &a * &b,
                7 => a.tr_mul(&b),
                8 => a.clone() * s,
                9 => &a * s,
                10 => a.clone() / s,
                11 => &a / s,
                12 => -a.clone(),
                13 => -&a,
                14 => {
                    let mut t = a.clone();
                    t += b.clone();
                    t
                }
                15 => {
                    let mut t = a.clone();
                    t -= b.clone();
                    t
                }
                16 => {
                    let mut t = a.clone();
                    t *= s;
                    t
                }
                18 => {
                    let mut t = a.clone();
                    nalgebra::SimdValue::replace(&mut t, 0, b.clone());
                    t
                }
                19 => nalgebra::SimdValue::extract(&a, 0),
                20 => <Dv as nalgebra::SimdValue>::splat(a.clone()),
                21 => nalgebra::SimdValue::select(a.clone(), true, b.clone()),
                22 => nalgebra::SimdValue::select(a.clone(), false, b.clone()),
                17 => {
                    let mut t = a.clone();
                    t /= s;
                    t
                }
                _ => -&a,
            };
            let got = res.unwrap_generic(Dyn(rr), Dyn(rc));
            if got.shape() != model.shape() || got.iter().zip(model.iter()).any(|(x, y)| !(x == y)) {
                return Verdict::Fail {
                    sig: format!("C07/derivative-container/op{op}"),
                    why: format!("Derivative operator #{op} with a {} and b {}: got {:?}, plain matrices give {:?} (a = {:?}, b = {:?}, s = {s})", if *a_abs { "absent" } else { "present" }, if *b_abs { "absent" } else { "present" }, got.as_slice(), model.as_slice(), am.as_slice(), bm.as_slice()),
                };
            }
        }
    }
    st.class(&format!("derivative-container op{op}"));
    Verdict::Pass { nontrivial: (d.a_zero ^ d.b_zero) && matches!(op, 3 | 4 | 5 | 15 | 6 | 7 | 18 | 22) }
}

// ---------------------------------------------------------------------------------------------
// driver functions: the constants of the differentiated function are absent or explicit zeros
// ---------------------------------------------------------------------------------------------

use nalgebra::allocator::Allocator;
use nalgebra::{Const, DefaultAllocator, Dim, OMatrix, OVector, U1};
use num_dual::{gradient, hessian, jacobian, partial_hessian, try_jacobian, Dual2Vec, DualVec, HyperDualVec};

fn zeros<R: Dim, C: Dim>(r: usize, c: usize) -> OMatrix<f64, R, C>
where
    DefaultAllocator: Allocator<R, C>,
{
    OMatrix::<f64, R, C>::zeros_generic(R::from_usize(r), C::from_usize(c))
}
fn dflat<R: Dim, C: Dim>(out: &mut Vec<f64>, m: &OMatrix<f64, R, C>)
where
    DefaultAllocator: Allocator<R, C>,
{
    out.push(m.nrows() as f64);
    out.push(m.ncols() as f64);
    for i in 0..m.nrows() {
        for j in 0..m.ncols() {
            out.push(m[(i, j)]);
        }
    }
}

struct Fun7 {
    prog: Program,
    consts: Vec<f64>,
    nvar: usize,
    /// the second-order block of every "constant" is present and non-zero (hand-built values)
    nonzero_blocks: bool,
}
impl Fun7 {
    /// evaluate with the variables given by the driver; constant j is built by `mk(value, block mask)`
    fn eval<D: DualNum<f64>>(&self, vars: Vec<D>, mask: u32, nb: usize, mk: &dyn Fn(f64, u32) -> D) -> Vec<D> {
        let mut ins = vars;
        for (j, k) in self.consts.iter().enumerate() {
            ins.push(mk(*k, (mask >> (j * nb)) & ((1 << nb) - 1)));
        }
        let all = eval_lib::<D, f64>(&self.prog, &ins);
        self.prog.outs.iter().map(|o| all[*o].clone()).collect()
    }
}

fn drv_gradient<D: Dim>(f: &Fun7, x: &[f64], mask: u32) -> Vec<f64>
where
    DefaultAllocator: Allocator<D> + Allocator<U1, D> + Allocator<D, D>,
{
    let n = x.len();
    let xv = OVector::<f64, D>::from_fn_generic(D::from_usize(n), U1, |i, _| x[i]);
    let mk = |k: f64, m: u32| -> DualVec<f64, f64, D> { DualVec::new(k, if m & 1 == 1 { Derivative::none() } else { Derivative::some(zeros::<D, U1>(n, 1)) }) };
    let (v, g) = gradient(|xs: OVector<DualVec<f64, f64, D>, D>| f.eval(xs.iter().cloned().collect(), mask, 1, &mk)[0].clone(), xv);
    let mut out = vec![v];
    dflat(&mut out, &g);
    out
}
fn drv_jacobian<M: Dim, N: Dim>(f: &Fun7, x: &[f64], m: usize, mask: u32, try_variant: bool) -> Vec<f64>
where
    DefaultAllocator: Allocator<M> + Allocator<N> + Allocator<M, N> + Allocator<U1, N> + Allocator<N, N>,
{
    let n = x.len();
    let xv = OVector::<f64, N>::from_fn_generic(N::from_usize(n), U1, |i, _| x[i]);
    let mk = |k: f64, mm: u32| -> DualVec<f64, f64, N> { DualVec::new(k, if mm & 1 == 1 { Derivative::none() } else { Derivative::some(zeros::<N, U1>(n, 1)) }) };
    let g = |xs: OVector<DualVec<f64, f64, N>, N>| {
        let o = f.eval(xs.iter().cloned().collect(), mask, 1, &mk);
        OVector::<DualVec<f64, f64, N>, M>::from_fn_generic(M::from_usize(m), U1, |i, _| o[i].clone())
    };
    let (v, j) = if try_variant { try_jacobian(|xs| Ok::<_, ()>(g(xs)), xv).unwrap() } else { jacobian(g, xv) };
    let mut out = vec![];
    dflat(&mut out, &v);
    dflat(&mut out, &j);
    out
}
fn drv_hessian<D: Dim>(f: &Fun7, x: &[f64], mask: u32) -> Vec<f64>
where
    DefaultAllocator: Allocator<D> + Allocator<U1, D> + Allocator<D, D>,
{
    let n = x.len();
    let xv = OVector::<f64, D>::from_fn_generic(D::from_usize(n), U1, |i, _| x[i]);
    // a "constant" may be hand-built with a non-zero Hessian block next to a zero (absent or explicit)
    // gradient block: the driver must not infer one part from the presence of another
    let hb = f.nonzero_blocks;
    let mk = |k: f64, m: u32| -> Dual2Vec<f64, f64, D> {
        Dual2Vec::new(
            k,
            if m & 1 == 1 { Derivative::none() } else { Derivative::some(zeros::<U1, D>(1, n)) },
            if hb {
                Derivative::some(OMatrix::<f64, D, D>::from_fn_generic(D::from_usize(n), D::from_usize(n), |i, j| (1 + i + j) as f64 * 0.5 - if i == j { 2.0 } else { 0.0 } + k * 0.125))
            } else if m & 2 == 2 {
                Derivative::none()
            } else {
                Derivative::some(zeros::<D, D>(n, n))
            },
        )
    };
    let (v, g, h) = hessian(|xs: OVector<Dual2Vec<f64, f64, D>, D>| f.eval(xs.iter().cloned().collect(), mask, 2, &mk)[0].clone(), xv);
    let mut out = vec![v];
    dflat(&mut out, &g);
    dflat(&mut out, &h);
    out
}
fn drv_partial_hessian<M: Dim, N: Dim>(f: &Fun7, x: &[f64], nx: usize, mask: u32) -> Vec<f64>
where
    DefaultAllocator: Allocator<M> + Allocator<N> + Allocator<M, N> + Allocator<U1, N> + Allocator<U1, M> + Allocator<M, M> + Allocator<N, N>,
{
    let ny = x.len() - nx;
    let xv = OVector::<f64, M>::from_fn_generic(M::from_usize(nx), U1, |i, _| x[i]);
    let yv = OVector::<f64, N>::from_fn_generic(N::from_usize(ny), U1, |i, _| x[nx + i]);
    type H<M, N> = HyperDualVec<f64, f64, M, N>;
    let hb = f.nonzero_blocks;
    let mk = |k: f64, m: u32| -> H<M, N> {
        HyperDualVec::new(
            k,
            if m & 1 == 1 { Derivative::none() } else { Derivative::some(zeros::<M, U1>(nx, 1)) },
            if m & 2 == 2 { Derivative::none() } else { Derivative::some(zeros::<U1, N>(1, ny)) },
            if hb {
                Derivative::some(OMatrix::<f64, M, N>::from_fn_generic(M::from_usize(nx), N::from_usize(ny), |i, j| (2 + i) as f64 * 0.25 - (j as f64) * 0.75 + k * 0.125))
            } else if m & 4 == 4 {
                Derivative::none()
            } else {
                Derivative::some(zeros::<M, N>(nx, ny))
            },
        )
    };
    let (v, gx, gy, h) = partial_hessian(|xs: OVector<H<M, N>, M>, ys: OVector<H<M, N>, N>| f.eval(xs.iter().cloned().chain(ys.iter().cloned()).collect(), mask, 3, &mk)[0].clone(), xv, yv);
    let mut out = vec![v];
    dflat(&mut out, &gx);
    dflat(&mut out, &gy);
    dflat(&mut out, &h);
    out
}

const DRIVER_NAMES: [&str; 5] = ["gradient", "jacobian", "hessian", "partial_hessian", "try_jacobian"];

fn drv_case(d: &DrvCase, st: &mut Stats) -> Verdict {
    let driver = (d.driver % 5) as usize;
    let (n, n2, m) = if d.stat {
        match driver {
            1 | 4 => (2usize, 0usize, 3usize),
            3 => (2, 3, 1),
            _ => (2 + (d.n as usize % 2), 0, 1),
        }
    } else {
        (1 + d.n as usize % 4, if driver == 3 { 1 + d.n2 as usize % 3 } else { 0 }, if matches!(driver, 1 | 4) { 1 + d.m as usize % 4 } else { 1 })
    };
    let nvar = n + n2;
    let x: Vec<f64> = (0..nvar).map(|i| d.x[i % d.x.len()] + 0.125 * (i / d.x.len()) as f64).collect();
    let nc = d.consts.len().clamp(1, 2);
    let consts: Vec<f64> = d.consts[..nc].to_vec();
    let mut all_in = x.clone();
    all_in.extend_from_slice(&consts);
    let (mut prog, _) = resolve(&all_in, &d.raw, m);
    while prog.outs.len() < m {
        let l = *prog.outs.last().unwrap();
        prog.outs.push(l);
    }
    // some outputs are a bare constant or a bare variable
    for o in 0..m {
        match d.outsel[o % d.outsel.len()] % 4 {
            2 => prog.outs[o] = nvar + (o % nc),
            3 => prog.outs[o] = o % nvar,
            _ => {}
        }
    }
    let nonzero_blocks = matches!(driver, 2 | 3) && d.n2 % 4 == 3;
    if nonzero_blocks {
        st.class("driver: constants with a non-zero second-order block beside zero first-order blocks");
    }
    let f = Fun7 { prog, consts, nvar, nonzero_blocks };
    let nb = match driver {
        2 => 2,
        3 => 3,
        _ => 1,
    };
    let bits = nb * nc;
    let run = |mask: u32| -> Vec<f64> {
        match (driver, d.stat) {
            (0, false) => drv_gradient::<Dyn>(&f, &x, mask),
            (0, true) => {
                if n == 2 {
                    drv_gradient::<Const<2>>(&f, &x, mask)
                } else {
                    drv_gradient::<Const<3>>(&f, &x, mask)
                }
            }
            (1, false) => drv_jacobian::<Dyn, Dyn>(&f, &x, m, mask, false),
            (1, true) => drv_jacobian::<Const<3>, Const<2>>(&f, &x, m, mask, false),
            (4, false) => drv_jacobian::<Dyn, Dyn>(&f, &x, m, mask, true),
            (4, true) => drv_jacobian::<Const<3>, Const<2>>(&f, &x, m, mask, true),
            (2, false) => drv_hessian::<Dyn>(&f, &x, mask),
            (2, true) => {
                if n == 2 {
                    drv_hessian::<Const<2>>(&f, &x, mask)
                } else {
                    drv_hessian::<Const<3>>(&f, &x, mask)
                }
            }
            (_, false) => drv_partial_hessian::<Dyn, Dyn>(&f, &x, n, mask),
            (_, true) => drv_partial_hessian::<Const<2>, Const<3>>(&f, &x, n, mask),
        }
    };
    let base = run(0);
    if base.iter().any(|v| !v.is_finite()) {
        return Verdict::Trivial("non-finite intermediate (0*inf is out of domain)");
    }
    for mask in 1u32..(1 << bits) {
        let r = run(mask);
        if r.len() != base.len() || r.iter().zip(base.iter()).any(|(a, b)| !(a == b)) {
            return Verdict::Fail {
                sig: format!("C07/driver/{}", DRIVER_NAMES[driver]),
                why: format!(
                    "{} ({}, n={n}{} m={m}) returns {:?} when the constants of the function carry explicit zero parts but {:?} when their parts (mask {mask:#b}) are absent; function of x0..x{} and constants c = {:?} (inputs n{}..): {}; outputs {:?}; point {:?}",
                    DRIVER_NAMES[driver],
                    if d.stat { "static" } else { "dynamic" },
                    if n2 > 0 { format!("+{n2}") } else { String::new() },
                    base,
                    r,
                    nvar - 1,
                    f.consts,
                    nvar,
                    render(&f.prog),
                    f.prog.outs,
                    x
                ),
            };
        }
    }
    st.count("representations_compared", (1u64 << bits) - 1);
    st.class(&format!("driver:{}", DRIVER_NAMES[driver]));
    // non-trivial: a constant is used by the function; for jacobians a bare-constant output precedes
    // an output that depends on the variables
    let is_c = |i: usize| i >= f.nvar && i < f.nvar + nc;
    let used = f.prog.outs.iter().any(|o| is_c(*o)) || f.prog.ops.iter().any(|op| op_operands(op).iter().any(|i| is_c(*i)));
    let nontrivial = if matches!(driver, 1 | 4) {
        let first_const = f.prog.outs.iter().position(|o| is_c(*o));
        let last_var = f.prog.outs.iter().rposition(|o| !is_c(*o));
        let shifted = matches!((first_const, last_var), (Some(a), Some(b)) if a < b);
        if shifted {
            st.class("jacobian: a constant output precedes a non-constant output");
        }
        used && shifted
    } else {
        used
    };
    if nontrivial && st.wants_sample() {
        st.sample(|| json!({"driver": DRIVER_NAMES[driver], "static": d.stat, "function": render(&f.prog), "outputs": f.prog.outs, "constants": f.consts, "point": x, "representations": 1u64 << bits, "result": base}));
    }
    Verdict::Pass { nontrivial }
}

fn op_operands(op: &Op) -> Vec<usize> {
    match op {
        Op::Input(_) | Op::Const(_) | Op::ConstI(_) => vec![],
        Op::Un(_, a) | Op::SinCos(a, _) | Op::Powi(a, _) | Op::Powf(a, _) | Op::Log(a, _) | Op::Neg(a) | Op::Inv(a) | Op::BinS(_, _, a, _) | Op::RBinS(_, a, _) => vec![*a],
        Op::Powd(a, b) | Op::Atan2(a, b) | Op::Bin(_, _, a, b) => vec![*a, *b],
        Op::MulAdd(a, b, c) => vec![*a, *b, *c],
        Op::Sum(l) | Op::Product(l) => l.clone(),
    }
}

fn history_op() -> impl Strategy<Value = RawOp> {
    // compound assignments and scalar ops applied to the accumulator (the last node)
    let code = prop_oneof![8 => 42u8..46, 4 => 46u8..50, 3 => 34u8..42, 2 => 0u8..24, 1 => Just(51u8)];
    (code, any::<u16>(), any::<u16>(), -1.0f64..1.0, any::<i8>()).prop_map(|(code, b, c, k, n)| RawOp { code, a: u16::MAX, b, c, k, n })
}

impl Property for C07 {
    type Case = Case;
    const ID: &'static str = "C07";
    fn strategy(tier: Tier) -> BoxedStrategy<Case> {
        let types = optional_types();
        let nt = types.len();
        let max_nodes = if tier == Tier::Quick { 8 } else { 16 };
        let raw = prop_oneof![proptest::collection::vec(raw_op(), 1..=max_nodes), proptest::collection::vec(history_op(), 1..=max_nodes),];
        let prog_case = (
            (0..nt, dims_strategy()),
            proptest::collection::vec(c03::input_real(), 1..=3),
            raw,
            proptest::collection::vec(parts_pool(), 3),
            proptest::collection::vec(proptest::collection::vec(proptest::bool::weighted(0.45), 3), 3),
        )
            .prop_map(move |((ti, dims), x, raw, parts, zero)| Case { ty: types[ti], dims, x, raw, parts, zero, deriv: None, drv: None });
        let dcase = (
            (0u8..23, any::<u8>(), any::<u8>(), any::<u8>()),
            proptest::collection::vec(-16i8..=16, 9),
            proptest::collection::vec(-16i8..=16, 9),
            (any::<bool>(), any::<bool>(), -8i8..=8),
        )
            .prop_map(|((op, rows, cols, inner), a, b, (a_zero, b_zero, s))| Case {
                ty: 11,
                dims: (0, 0),
                x: vec![1.0],
                raw: vec![],
                parts: vec![vec![0.0]],
                zero: vec![vec![false]],
                deriv: Some(DerivCase { op, rows, cols, inner, a, b, a_zero, b_zero, s }),
                drv: None,
            });
        let drv = (
            (0u8..5, any::<u8>(), any::<u8>(), any::<u8>(), proptest::bool::weighted(0.3)),
            proptest::collection::vec(c03::input_real(), 4),
            proptest::collection::vec(c03::input_real(), 1..=2),
            proptest::collection::vec(raw_op(), 1..=max_nodes),
            proptest::collection::vec(0u8..4, 4),
        )
            .prop_map(|((driver, n, n2, m, stat), x, consts, raw, outsel)| Case {
                ty: 11,
                dims: (0, 0),
                x: vec![1.0],
                raw: vec![],
                parts: vec![vec![0.0]],
                zero: vec![vec![false]],
                deriv: None,
                drv: Some(DrvCase { driver, n, n2, m, stat, x, consts, raw, outsel }),
            });
        prop_oneof![8 => prog_case, 1 => dcase, 1 => drv].boxed()
    }
    fn check(case: &Case, st: &mut Stats) -> Verdict {
        if let Some(d) = &case.drv {
            if d.x.is_empty() || d.consts.is_empty() || d.raw.is_empty() || d.outsel.is_empty() || d.x.iter().chain(d.consts.iter()).any(|x| !x.is_finite() || x.abs() > 1e3) || d.raw.iter().any(|r| !r.k.is_finite() || r.k.abs() > 1.0) {
                return Verdict::Trivial("malformed case");
            }
            return drv_case(d, st);
        }
        if let Some(d) = &case.deriv {
            if d.a.is_empty() || d.b.is_empty() {
                return Verdict::Trivial("malformed case");
            }
            return deriv_case(d, st);
        }
        if case.ty >= TYPES.len()
            || case.x.is_empty()
            || case.x.len() > 3
            || case.raw.is_empty()
            || case.parts.is_empty()
            || case.parts.iter().any(|p| p.is_empty())
            || case.zero.is_empty()
            || case.zero.iter().any(|p| p.is_empty())
            || case.x.iter().any(|x| !x.is_finite() || x.abs() > 1e3)
            || case.raw.iter().any(|r| !r.k.is_finite() || r.k.abs() > 1.0)
        {
            return Verdict::Trivial("malformed case");
        }
        let dims = [case.dims.0 as usize % 7, case.dims.1 as usize % 7];
        dispatch(case.ty, &dims, V { case, st })
    }
    fn cases(tier: Tier) -> u64 {
        match tier {
            Tier::Quick => 200_000,
            Tier::Thorough => 5_000_000,
        }
    }
    fn rule() -> String {
        "generated: a program (as in C03) or a HISTORY (a sequence of compound assignments += -= *= /= with dual and scalar right-hand sides, scalar ops and unary functions applied to an accumulator) on every type with optional parts (DualVec, Dual2Vec, HyperDualVec static and dynamic, nested ones); inputs whose optional blocks are all-zero with probability 45% are marked, and ALL 2^k representations (absent vs explicit zeros) of the k <= 6 marked blocks are enumerated per case. Oracle: every part of EVERY node (unwrap_generic) is numerically equal (==, so -0 = +0) across all representations, and the explicit-zero representation equals the reference algebra (32 u e). 10% of the cases call the operator impls of the public Derivative container directly (18 operator impls incl. &a-&b, tr_mul, scalar ops, compound assignments, and the single-lane SimdValue view replace / extract / splat / select, all shapes 1..3 x 1..3) against plain nalgebra matrices. Another 10% call the driver functions gradient, jacobian, try_jacobian, hessian and partial_hessian (dynamic sizes 1..4, static 2/3) on a generated function R^n -> R^m whose 1..2 constants are handed in either as absent or as explicit-zero parts (every block of every constant: all 2^(blocks*constants) representations), with outputs that are program nodes, bare constants or bare variables (hessian / partial_hessian: a quarter of the cases give the constants a non-zero second-order block beside zero first-order blocks); the returned values, gradients, Jacobians and Hessians must be numerically equal across representations. Cases with a non-finite intermediate are out of domain. Non-trivial: in some representation an absent block of the left operand meets a present block of the right operand in -, * or /; driver cases: a constant is used (Jacobians: a bare-constant output precedes a non-constant output).".into()
    }
    fn assumptions() -> Vec<String> {
        vec!["k <= 6 marked blocks per case; values finite".into()]
    }
}
