//! C05 - derivative driver functions seed, extract and orient results correctly.

use crate::c03::{input_real, raw_op};
use crate::common::*;
use crate::engine::*;
use crate::prog::*;
use crate::types::Flt;
use nalgebra::allocator::Allocator;
use nalgebra::{Const, DefaultAllocator, Dim, Dyn, OMatrix, OVector, U1};
use ndv_oracle::{Alg, Jet, Mono, R};
use num_dual::*;
use proptest::prelude::*;
use serde::{Deserialize, Serialize};
use serde_json::json;

#[derive(Clone, Copy, Debug, PartialEq, Eq, Serialize, Deserialize)]
pub enum Driver {
    First,
    Second,
    Third,
    Gradient,
    Jacobian,
    Hessian,
    SecondPartial,
    PartialHessian,
    ThirdPartial,
    ThirdPartialVec,
    /// first_derivative / gradient / second_derivative with dual numbers inside (T = Dual64)
    FirstInner,
    GradientInner,
    SecondInner,
}

#[derive(Clone, Debug, Serialize, Deserialize)]
pub struct Case {
    pub driver: Driver,
    /// use the try_ variant; `fail`: the closure returns Err(err)
    pub try_variant: bool,
    pub fail: bool,
    pub err: i64,
    pub dynamic: bool,
    /// number of inputs (for partial_hessian: x has n, y has n2), number of outputs
    pub n: u8,
    pub n2: u8,
    pub m: u8,
    pub x: Vec<f64>,
    pub raw: Vec<RawOp>,
    pub idx: (u8, u8, u8),
    /// inner derivative parts for the *Inner drivers
    pub inner: Vec<f64>,
    /// 0: the function is the generated DAG at a moderate point; otherwise the selector of a
    /// wide-magnitude template evaluated at a point whose coordinates are all of size 10^e
    #[serde(default)]
    pub wide: u8,
    #[serde(default)]
    pub wu: f64,
}

pub struct C05;

/// Wide-magnitude cases: every coordinate of the point is m_i * 10^e with one common exponent e uniform
/// in +-300/(d+1) (d the derivative order of the driver), and the function is built from quotients,
/// products and one elementary function of the variables, so that all true partial derivatives are
/// representable while squares and cubes of the coordinates are not necessarily.
fn wide_setup(case: &Case, nvar: usize, m: usize, d: usize) -> (Vec<f64>, Program) {
    use ndv_oracle::taylor::Fun;
    const FUNS: [Fun; 6] = [Fun::Recip, Fun::Sqrt, Fun::Cbrt, Fun::Ln, Fun::Atan, Fun::Asinh];
    let sel = case.wide as usize;
    let f = FUNS[sel % 6];
    let positive = matches!(f, Fun::Sqrt | Fun::Ln);
    // plain quotient of two variables (all outputs): first order over the whole range of f64 (the partial
    // derivatives are of size 10^-e), higher orders while 1/b^(d+1) is representable; templates with an inner function or a second quotient: its own derivatives
    // enter squared or cubed (chain / quotient rule of order d), exponent range 300/(2d+2) (d = 1: 300/2)
    let plain_quotient = (sel / 8) % 2 == 0;
    let l = if plain_quotient && d == 1 {
        290.0
    } else if plain_quotient {
        300.0 / (d as f64 + 1.0) - 1.0
    } else if d == 1 {
        149.0
    } else {
        300.0 / (2.0 * d as f64 + 2.0) - 1.0
    };
    let e = -l + 2.0 * l * case.wu.clamp(0.0, 1.0);
    let x: Vec<f64> = (0..nvar)
        .map(|i| {
            let t = case.x[i % case.x.len()] + 0.125 * (i / case.x.len()) as f64;
            let t = if t.abs() < 0.1 { 1.5 + i as f64 } else { t };
            (if positive { t.abs() } else { t }) * 10f64.powf(e)
        })
        .collect();
    let mut ops: Vec<Op> = (0..nvar).map(Op::Input).collect();
    let mut outs = vec![];
    for o in 0..m {
        let (a, b, c2) = (o % nvar, (o + 1) % nvar, (o + 2) % nvar);
        match if plain_quotient { 0 } else { 1 + (sel / 16 + o) % 3 } {
            0 => ops.push(Op::Bin(Bin::Div, if o % 2 == 0 { Form::Owned } else { Form::RefRhs }, a, b)),
            1 => {
                ops.push(Op::Un(f.name().to_string(), a));
                let g = ops.len() - 1;
                ops.push(Op::Bin(Bin::Mul, Form::Owned, g, b));
            }
            2 => {
                ops.push(Op::Un(f.name().to_string(), a));
                let g = ops.len() - 1;
                ops.push(Op::Bin(Bin::Div, Form::RefRhs, b, g));
            }
            _ => {
                ops.push(Op::Bin(Bin::Div, Form::Owned, a, c2));
                let q = ops.len() - 1;
                ops.push(Op::Bin(Bin::Mul, Form::Owned, q, b));
            }
        }
        outs.push(ops.len() - 1);
    }
    (x, Program { n_inputs: nvar, ops, outs })
}

/// static sizes instantiated
const STATIC_N: [usize; 5] = [1, 2, 3, 4, 6];

fn snap(n: u8, dynamic: bool, allow_zero: bool) -> usize {
    let n = n as usize % 7;
    if dynamic {
        if n == 0 && !allow_zero {
            1
        } else {
            n
        }
    } else {
        // nearest instantiated static size
        *STATIC_N.iter().min_by_key(|s| (**s as i64 - n.max(1) as i64).abs()).unwrap()
    }
}

struct Ctx<'a> {
    prog: Program,
    alg: std::sync::Arc<Alg>,
    rf: Vec<Jet>,
    case: &'a Case,
    what: String,
    worst: f64,
    vals: Vec<f64>,
}

impl<'a> Ctx<'a> {
    /// expected value of output `o` at monomial `m`
    fn expect(&self, o: usize, m: &Mono) -> R {
        self.rf[self.prog.outs[o]].c[self.alg.index(m)]
    }
    fn cmp(&mut self, lib: f64, r: R, part: &str) -> Result<(), Verdict> {
        let u = <f64 as Flt>::U;
        let tol = K * u * r.e + floor_of::<f64>();
        let d = (lib - r.v).abs();
        if r.e > 0.0 {
            self.worst = self.worst.max(d / (u * r.e));
        }
        self.vals.push(r.v);
        if !(d <= tol) {
            return Err(Verdict::Fail {
                sig: format!("C05/{:?}/{}", self.case.driver, part.split('[').next().unwrap_or(part)),
                why: format!("{}: {} = {:e} but the reference partial derivative is {:e} (tolerance {:e}); function: {}; point {:?}", self.what, part, lib, r.v, tol, render(&self.prog), self.case.x),
            });
        }
        Ok(())
    }
}

pub(crate) fn mono(ng: usize, picks: &[(usize, usize)]) -> Mono {
    let mut m = vec![0u8; ng];
    for (g, d) in picks {
        m[*g] = *d as u8;
    }
    m
}

/// reference evaluation: inputs seeded with the given monomials (coefficient 1 each)
pub(crate) fn ref_eval(prog: &Program, sizes: &[usize], x: &[f64], seeds: &[Vec<Mono>], extra: &[(usize, Mono, f64)]) -> Option<(std::sync::Arc<Alg>, Vec<Jet>)> {
    let alg = Alg::new(sizes);
    let mut ins = vec![];
    for (i, xi) in x.iter().enumerate() {
        let mut j = Jet::constant(&alg, R::exact(*xi));
        for m in &seeds[i] {
            let k = alg.index(m);
            j.c[k] = j.c[k] + R::ONE;
        }
        ins.push(j);
    }
    for (i, m, v) in extra {
        let k = alg.index(m);
        ins[*i].c[k] = ins[*i].c[k] + R::exact(*v);
    }
    if ins.is_empty() {
        // constant function of zero variables
        ins.push(Jet::constant(&alg, R::ZERO));
        let p2 = prog.clone();
        let r = eval_ref(&p2, &ins, false, 1)?;
        return Some((alg, r));
    }
    let r = eval_ref(prog, &ins, false, 2)?;
    Some((alg, r))
}

fn ovec<D: Dim>(x: &[f64]) -> OVector<f64, D>
where
    DefaultAllocator: Allocator<D>,
{
    OVector::<f64, D>::from_fn_generic(D::from_usize(x.len()), U1, |i, _| x[i])
}

type Out = Result<bool, Verdict>;

fn err_case(case: &Case, got: Option<i64>) -> Out {
    match got {
        Some(e) if e == case.err => Ok(false),
        other => Err(Verdict::Fail { sig: format!("C05/{:?}/error-not-propagated", case.driver), why: format!("{:?}: the closure returned Err({}) but the driver returned {:?}", case.driver, case.err, other) }),
    }
}

fn run_gradient<D: Dim>(cx: &mut Ctx) -> Out
where
    DefaultAllocator: Allocator<D> + Allocator<U1, D> + Allocator<D, D>,
{
    let case = cx.case;
    let n = case.x.len();
    let prog = cx.prog.clone();
    let out = prog.outs[0];
    let f = |x: OVector<DualVec<f64, f64, D>, D>| -> DualVec<f64, f64, D> {
        let ins: Vec<_> = x.iter().cloned().collect();
        if ins.is_empty() {
            return eval_lib::<DualVec<f64, f64, D>, f64>(&prog, &[DualVec::from_re(0.0)])[out].clone();
        }
        eval_lib::<DualVec<f64, f64, D>, f64>(&prog, &ins)[out].clone()
    };
    let base = gradient(&f, ovec::<D>(&case.x));
    let (v, g) = if case.try_variant {
        let r = try_gradient(|x| if case.fail { Err(case.err) } else { Ok(f(x)) }, ovec::<D>(&case.x));
        match r {
            Err(e) => return err_case(case, Some(e)),
            Ok(r) => {
                if case.fail {
                    return err_case(case, None);
                }
                if r.0.to_bits() != base.0.to_bits() || r.1.iter().zip(base.1.iter()).any(|(a, b)| a.to_bits() != b.to_bits()) {
                    return Err(Verdict::Fail { sig: "C05/Gradient/try-differs".into(), why: format!("try_gradient returned {:?} but gradient {:?}", r, base) });
                }
                r
            }
        }
    } else {
        base
    };
    if g.len() != n {
        return Err(Verdict::Fail { sig: "C05/Gradient/shape".into(), why: format!("gradient has length {} for {} variables", g.len(), n) });
    }
    let r0 = cx.expect(0, &mono(1, &[]));
    cx.cmp(v, r0, "value")?;
    for i in 0..n {
        let r = cx.expect(0, &mono(1, &[(0, i + 1)]));
        cx.cmp(g[i], r, &format!("gradient[{i}]"))?;
    }
    Ok(true)
}

fn run_jacobian<M: Dim, N: Dim>(cx: &mut Ctx, m: usize) -> Out
where
    DefaultAllocator: Allocator<M> + Allocator<N> + Allocator<M, N> + Allocator<U1, N> + Allocator<N, N>,
{
    let case = cx.case;
    let n = case.x.len();
    let prog = cx.prog.clone();
    let outs = prog.outs.clone();
    let f = |x: OVector<DualVec<f64, f64, N>, N>| -> OVector<DualVec<f64, f64, N>, M> {
        let ins: Vec<_> = x.iter().cloned().collect();
        let vals = if ins.is_empty() { eval_lib::<DualVec<f64, f64, N>, f64>(&prog, &[DualVec::from_re(0.0)]) } else { eval_lib::<DualVec<f64, f64, N>, f64>(&prog, &ins) };
        OVector::<DualVec<f64, f64, N>, M>::from_fn_generic(M::from_usize(m), U1, |i, _| vals[outs[i]].clone())
    };
    let base = jacobian(&f, ovec::<N>(&case.x));
    let (v, jac) = if case.try_variant {
        let r = try_jacobian(|x| if case.fail { Err(case.err) } else { Ok(f(x)) }, ovec::<N>(&case.x));
        match r {
            Err(e) => return err_case(case, Some(e)),
            Ok(r) => {
                if case.fail {
                    return err_case(case, None);
                }
                if r.0.iter().zip(base.0.iter()).any(|(a, b)| a.to_bits() != b.to_bits()) || r.1.iter().zip(base.1.iter()).any(|(a, b)| a.to_bits() != b.to_bits()) {
                    return Err(Verdict::Fail { sig: "C05/Jacobian/try-differs".into(), why: format!("try_jacobian returned {:?} but jacobian {:?}", r, base) });
                }
                r
            }
        }
    } else {
        base
    };
    if jac.shape() != (m, n) || v.len() != m {
        return Err(Verdict::Fail { sig: "C05/Jacobian/shape".into(), why: format!("jacobian has shape {:?} for {} outputs of {} variables", jac.shape(), m, n) });
    }
    for i in 0..m {
        let r0 = cx.expect(i, &mono(1, &[]));
        cx.cmp(v[i], r0, &format!("value[{i}]"))?;
        for j in 0..n {
            let r = cx.expect(i, &mono(1, &[(0, j + 1)]));
            cx.cmp(jac[(i, j)], r, &format!("jacobian[({i},{j})]"))?;
        }
    }
    Ok(true)
}

fn run_hessian<D: Dim>(cx: &mut Ctx) -> Out
where
    DefaultAllocator: Allocator<D> + Allocator<U1, D> + Allocator<D, D>,
{
    let case = cx.case;
    let n = case.x.len();
    let prog = cx.prog.clone();
    let out = prog.outs[0];
    let f = |x: OVector<Dual2Vec<f64, f64, D>, D>| -> Dual2Vec<f64, f64, D> {
        let ins: Vec<_> = x.iter().cloned().collect();
        if ins.is_empty() {
            return eval_lib::<Dual2Vec<f64, f64, D>, f64>(&prog, &[Dual2Vec::from_re(0.0)])[out].clone();
        }
        eval_lib::<Dual2Vec<f64, f64, D>, f64>(&prog, &ins)[out].clone()
    };
    let base = hessian(&f, ovec::<D>(&case.x));
    let (v, g, h) = if case.try_variant {
        let r = try_hessian(|x| if case.fail { Err(case.err) } else { Ok(f(x)) }, ovec::<D>(&case.x));
        match r {
            Err(e) => return err_case(case, Some(e)),
            Ok(r) => {
                if case.fail {
                    return err_case(case, None);
                }
                if r.0.to_bits() != base.0.to_bits() || r.1.iter().zip(base.1.iter()).any(|(a, b)| a.to_bits() != b.to_bits()) || r.2.iter().zip(base.2.iter()).any(|(a, b)| a.to_bits() != b.to_bits()) {
                    return Err(Verdict::Fail { sig: "C05/Hessian/try-differs".into(), why: "try_hessian and hessian differ".into() });
                }
                r
            }
        }
    } else {
        base
    };
    if g.len() != n || h.shape() != (n, n) {
        return Err(Verdict::Fail { sig: "C05/Hessian/shape".into(), why: format!("hessian shapes {} / {:?} for {} variables", g.len(), h.shape(), n) });
    }
    let r0 = cx.expect(0, &mono(2, &[]));
    cx.cmp(v, r0, "value")?;
    for i in 0..n {
        let r = cx.expect(0, &mono(2, &[(0, i + 1)]));
        cx.cmp(g[i], r, &format!("gradient[{i}]"))?;
        for j in 0..n {
            let r = cx.expect(0, &mono(2, &[(0, i + 1), (1, j + 1)]));
            cx.cmp(h[(i, j)], r, &format!("hessian[({i},{j})]"))?;
        }
    }
    Ok(true)
}

fn run_partial_hessian<M: Dim, N: Dim>(cx: &mut Ctx, nx: usize) -> Out
where
    DefaultAllocator: Allocator<M> + Allocator<N> + Allocator<M, N> + Allocator<U1, N> + Allocator<U1, M> + Allocator<M, M> + Allocator<N, N>,
{
    let case = cx.case;
    let ny = case.x.len() - nx;
    let prog = cx.prog.clone();
    let out = prog.outs[0];
    type H<M, N> = HyperDualVec<f64, f64, M, N>;
    let f = |x: OVector<H<M, N>, M>, y: OVector<H<M, N>, N>| -> H<M, N> {
        let ins: Vec<_> = x.iter().cloned().chain(y.iter().cloned()).collect();
        if ins.is_empty() {
            return eval_lib::<H<M, N>, f64>(&prog, &[HyperDualVec::from_re(0.0)])[out].clone();
        }
        eval_lib::<H<M, N>, f64>(&prog, &ins)[out].clone()
    };
    let (xv, yv) = (ovec::<M>(&case.x[..nx]), ovec::<N>(&case.x[nx..]));
    let base = partial_hessian(&f, xv.clone(), yv.clone());
    let (v, gx, gy, h) = if case.try_variant {
        let r = try_partial_hessian(|x, y| if case.fail { Err(case.err) } else { Ok(f(x, y)) }, xv, yv);
        match r {
            Err(e) => return err_case(case, Some(e)),
            Ok(r) => {
                if case.fail {
                    return err_case(case, None);
                }
                if r.0.to_bits() != base.0.to_bits() || r.3.iter().zip(base.3.iter()).any(|(a, b)| a.to_bits() != b.to_bits()) || r.1.iter().zip(base.1.iter()).any(|(a, b)| a.to_bits() != b.to_bits()) || r.2.iter().zip(base.2.iter()).any(|(a, b)| a.to_bits() != b.to_bits()) {
                    return Err(Verdict::Fail { sig: "C05/PartialHessian/try-differs".into(), why: "try_partial_hessian and partial_hessian differ".into() });
                }
                r
            }
        }
    } else {
        base
    };
    if gx.len() != nx || gy.len() != ny || h.shape() != (nx, ny) {
        return Err(Verdict::Fail { sig: "C05/PartialHessian/shape".into(), why: format!("partial_hessian shapes {} {} {:?} for {}+{} variables", gx.len(), gy.len(), h.shape(), nx, ny) });
    }
    let r0 = cx.expect(0, &mono(2, &[]));
    cx.cmp(v, r0, "value")?;
    for i in 0..nx {
        let r = cx.expect(0, &mono(2, &[(0, i + 1)]));
        cx.cmp(gx[i], r, &format!("df/dx[{i}]"))?;
    }
    for j in 0..ny {
        let r = cx.expect(0, &mono(2, &[(1, j + 1)]));
        cx.cmp(gy[j], r, &format!("df/dy[{j}]"))?;
    }
    for i in 0..nx {
        for j in 0..ny {
            let r = cx.expect(0, &mono(2, &[(0, i + 1), (1, j + 1)]));
            cx.cmp(h[(i, j)], r, &format!("partial_hessian[({i},{j})]"))?;
        }
    }
    Ok(true)
}

macro_rules! try_or_base {
    ($case:expr, $base:expr, $tryexpr:expr, $name:literal) => {{
        if $case.try_variant {
            match $tryexpr {
                Err(e) => return err_case($case, Some(e)),
                Ok(r) => {
                    if $case.fail {
                        return err_case($case, None);
                    }
                    if format!("{:?}", r) != format!("{:?}", $base) {
                        return Err(Verdict::Fail { sig: format!("C05/{}/try-differs", $name), why: format!("try variant returned {:?} but the infallible variant {:?}", r, $base) });
                    }
                    r
                }
            }
        } else {
            $base
        }
    }};
}

fn run_scalar(cx: &mut Ctx) -> Out {
    let case = cx.case;
    let prog = cx.prog.clone();
    let out = prog.outs[0];
    let x = &case.x;
    match case.driver {
        Driver::First => {
            let f = |d: Dual64| eval_lib::<Dual64, f64>(&prog, &[d])[out];
            let base = first_derivative(f, x[0]);
            let r = try_or_base!(case, base, try_first_derivative(|d| if case.fail { Err(case.err) } else { Ok(f(d)) }, x[0]), "First");
            let (e0, e1) = (cx.expect(0, &mono(1, &[])), cx.expect(0, &mono(1, &[(0, 1)])));
            cx.cmp(r.0, e0, "f")?;
            cx.cmp(r.1, e1, "f'")?;
        }
        Driver::Second => {
            let f = |d: Dual2_64| eval_lib::<Dual2_64, f64>(&prog, &[d])[out];
            let base = second_derivative(f, x[0]);
            let r = try_or_base!(case, base, try_second_derivative(|d| if case.fail { Err(case.err) } else { Ok(f(d)) }, x[0]), "Second");
            let e = [cx.expect(0, &mono(2, &[])), cx.expect(0, &mono(2, &[(0, 1)])), cx.expect(0, &mono(2, &[(0, 1), (1, 1)]))];
            cx.cmp(r.0, e[0], "f")?;
            cx.cmp(r.1, e[1], "f'")?;
            cx.cmp(r.2, e[2], "f''")?;
        }
        Driver::Third => {
            let f = |d: Dual3_64| eval_lib::<Dual3_64, f64>(&prog, &[d])[out];
            let base = third_derivative(f, x[0]);
            let r = try_or_base!(case, base, try_third_derivative(|d| if case.fail { Err(case.err) } else { Ok(f(d)) }, x[0]), "Third");
            let e = [cx.expect(0, &mono(3, &[])), cx.expect(0, &mono(3, &[(0, 1)])), cx.expect(0, &mono(3, &[(0, 1), (1, 1)])), cx.expect(0, &mono(3, &[(0, 1), (1, 1), (2, 1)]))];
            cx.cmp(r.0, e[0], "f")?;
            cx.cmp(r.1, e[1], "f'")?;
            cx.cmp(r.2, e[2], "f''")?;
            cx.cmp(r.3, e[3], "f'''")?;
        }
        Driver::SecondPartial => {
            let f = |a: HyperDual64, b: HyperDual64| eval_lib::<HyperDual64, f64>(&prog, &[a, b])[out];
            let base = second_partial_derivative(f, x[0], x[1]);
            let r = try_or_base!(case, base, try_second_partial_derivative(|a, b| if case.fail { Err(case.err) } else { Ok(f(a, b)) }, x[0], x[1]), "SecondPartial");
            let e = [cx.expect(0, &mono(2, &[])), cx.expect(0, &mono(2, &[(0, 1)])), cx.expect(0, &mono(2, &[(1, 1)])), cx.expect(0, &mono(2, &[(0, 1), (1, 1)]))];
            cx.cmp(r.0, e[0], "f")?;
            cx.cmp(r.1, e[1], "df/dx")?;
            cx.cmp(r.2, e[2], "df/dy")?;
            cx.cmp(r.3, e[3], "d2f/dxdy")?;
        }
        Driver::ThirdPartial | Driver::ThirdPartialVec => {
            let r = if case.driver == Driver::ThirdPartial {
                let f = |a: HyperHyperDual64, b: HyperHyperDual64, c: HyperHyperDual64| eval_lib::<HyperHyperDual64, f64>(&prog, &[a, b, c])[out];
                let base = third_partial_derivative(f, x[0], x[1], x[2]);
                try_or_base!(case, base, try_third_partial_derivative(|a, b, c| if case.fail { Err(case.err) } else { Ok(f(a, b, c)) }, x[0], x[1], x[2]), "ThirdPartial")
            } else {
                let n = x.len();
                let (i, j, k) = (case.idx.0 as usize % n, case.idx.1 as usize % n, case.idx.2 as usize % n);
                let f = |v: &[HyperHyperDual64]| eval_lib::<HyperHyperDual64, f64>(&prog, v)[out];
                let base = third_partial_derivative_vec(f, x, i, j, k);
                try_or_base!(case, base, try_third_partial_derivative_vec(|v| if case.fail { Err(case.err) } else { Ok(f(v)) }, x, i, j, k), "ThirdPartialVec")
            };
            let g = |p: &[(usize, usize)]| mono(3, p);
            let e = [
                cx.expect(0, &g(&[])),
                cx.expect(0, &g(&[(0, 1)])),
                cx.expect(0, &g(&[(1, 1)])),
                cx.expect(0, &g(&[(2, 1)])),
                cx.expect(0, &g(&[(0, 1), (1, 1)])),
                cx.expect(0, &g(&[(0, 1), (2, 1)])),
                cx.expect(0, &g(&[(1, 1), (2, 1)])),
                cx.expect(0, &g(&[(0, 1), (1, 1), (2, 1)])),
            ];
            let got = [r.0, r.1, r.2, r.3, r.4, r.5, r.6, r.7];
            let names = ["f", "d/d1", "d/d2", "d/d3", "d2/d1d2", "d2/d1d3", "d2/d2d3", "d3/d1d2d3"];
            for t in 0..8 {
                cx.cmp(got[t], e[t], names[t])?;
            }
        }
        Driver::FirstInner => {
            let xi = Dual64::new(x[0], case.inner[0]);
            let f = |d: Dual<Dual64, f64>| eval_lib::<Dual<Dual64, f64>, f64>(&prog, &[d])[out];
            let base = first_derivative(f, xi);
            let r = try_or_base!(case, base, try_first_derivative(|d| if case.fail { Err(case.err) } else { Ok(f(d)) }, xi), "FirstInner");
            // groups: [outer, inner]
            let e = [cx.expect(0, &mono(2, &[])), cx.expect(0, &mono(2, &[(1, 1)])), cx.expect(0, &mono(2, &[(0, 1)])), cx.expect(0, &mono(2, &[(0, 1), (1, 1)]))];
            cx.cmp(r.0.re, e[0], "f.re")?;
            cx.cmp(r.0.eps, e[1], "f.eps")?;
            cx.cmp(r.1.re, e[2], "f'.re")?;
            cx.cmp(r.1.eps, e[3], "f'.eps")?;
        }
        Driver::SecondInner => {
            let xi = Dual64::new(x[0], case.inner[0]);
            let f = |d: Dual2<Dual64, f64>| eval_lib::<Dual2<Dual64, f64>, f64>(&prog, &[d])[out];
            let base = second_derivative(f, xi);
            let r = try_or_base!(case, base, try_second_derivative(|d| if case.fail { Err(case.err) } else { Ok(f(d)) }, xi), "SecondInner");
            // groups: [a, b, inner]
            let g = |p: &[(usize, usize)]| mono(3, p);
            cx.cmp(r.0.re, cx.expect(0, &g(&[])), "f.re")?;
            cx.cmp(r.0.eps, cx.expect(0, &g(&[(2, 1)])), "f.eps")?;
            cx.cmp(r.1.re, cx.expect(0, &g(&[(0, 1)])), "f'.re")?;
            cx.cmp(r.1.eps, cx.expect(0, &g(&[(0, 1), (2, 1)])), "f'.eps")?;
            cx.cmp(r.2.re, cx.expect(0, &g(&[(0, 1), (1, 1)])), "f''.re")?;
            cx.cmp(r.2.eps, cx.expect(0, &g(&[(0, 1), (1, 1), (2, 1)])), "f''.eps")?;
        }
        Driver::GradientInner => {
            type D = DualVec<Dual64, f64, Const<2>>;
            let xi = nalgebra::SVector::<Dual64, 2>::from([Dual64::new(x[0], case.inner[0]), Dual64::new(x[1], case.inner[1 % case.inner.len()])]);
            let f = |v: nalgebra::SVector<D, 2>| eval_lib::<D, f64>(&prog, &[v[0].clone(), v[1].clone()])[out].clone();
            let base = gradient(f, xi);
            let r = try_or_base!(case, base, try_gradient(|v| if case.fail { Err(case.err) } else { Ok(f(v)) }, xi), "GradientInner");
            // groups: [vector(2), inner]
            let g = |p: &[(usize, usize)]| mono(2, p);
            cx.cmp(r.0.re, cx.expect(0, &g(&[])), "f.re")?;
            cx.cmp(r.0.eps, cx.expect(0, &g(&[(1, 1)])), "f.eps")?;
            for i in 0..2 {
                cx.cmp(r.1[i].re, cx.expect(0, &g(&[(0, i + 1)])), &format!("gradient[{i}].re"))?;
                cx.cmp(r.1[i].eps, cx.expect(0, &g(&[(0, i + 1), (1, 1)])), &format!("gradient[{i}].eps"))?;
            }
        }
        _ => unreachable!(),
    }
    Ok(true)
}

fn check_case(case: &Case, st: &mut Stats) -> Verdict {
    ndv_oracle::ring::set_unit(<f64 as Flt>::U);
    let dynamic = case.dynamic;
    // number of variables / outputs by driver
    let (n, n2, m): (usize, usize, usize) = match case.driver {
        Driver::First | Driver::Second | Driver::Third | Driver::FirstInner | Driver::SecondInner => (1, 0, 1),
        Driver::SecondPartial | Driver::GradientInner => (2, 0, 1),
        Driver::ThirdPartial => (3, 0, 1),
        Driver::ThirdPartialVec => ((case.n as usize % 6) + 1, 0, 1),
        Driver::Gradient | Driver::Hessian => (snap(case.n, dynamic, true), 0, 1),
        Driver::Jacobian => (snap(case.n, dynamic, true), 0, snap(case.m, dynamic, false)),
        Driver::PartialHessian => (snap(case.n, dynamic, true), snap(case.n2, dynamic, true), 1),
    };
    let nvar = n + n2;
    let mut x: Vec<f64> = (0..nvar).map(|i| case.x[i % case.x.len()] + 0.125 * (i / case.x.len()) as f64).collect();
    // the function: one shared DAG, the last m nodes are the outputs
    let (mut prog, _) = if nvar == 0 { resolve(&[0.0], &case.raw, m) } else { resolve(&x, &case.raw, m) };
    let wide = case.wide != 0 && nvar > 0;
    struct Reset;
    impl Drop for Reset {
        fn drop(&mut self) {
            FLOOR_OVERRIDE.with(|c| c.set(None));
        }
    }
    let _reset = Reset;
    if wide {
        // derivative order of the driver; the *Inner drivers nest dual numbers (order counts twice + 1)
        let d = match case.driver {
            Driver::First | Driver::Gradient | Driver::Jacobian => 1,
            Driver::Second | Driver::Hessian | Driver::SecondPartial | Driver::PartialHessian => 2,
            Driver::Third | Driver::ThirdPartial | Driver::ThirdPartialVec => 3,
            Driver::FirstInner | Driver::GradientInner => 5,
            Driver::SecondInner => 7,
        };
        let (wx, wp) = wide_setup(case, nvar, m, d);
        x = wx;
        prog = wp;
        FLOOR_OVERRIDE.with(|c| c.set(Some(crate::c01::WIDE_FLOOR)));
        st.class("wide-magnitude point and template function");
    }
    if nvar == 0 {
        // a function of zero variables must not use its dummy input: make every output a constant
        let k = prog.ops.len();
        for o in 0..m {
            prog.ops.push(Op::Const(0.5 + o as f64));
        }
        prog.outs = (k..k + m).collect();
    }
    while prog.outs.len() < m {
        let l = *prog.outs.last().unwrap();
        prog.outs.push(l);
    }
    let case2 = Case { x: x.clone(), ..case.clone() };
    // seeds of the reference evaluation
    let (sizes, seeds, extra): (Vec<usize>, Vec<Vec<Mono>>, Vec<(usize, Mono, f64)>) = match case.driver {
        Driver::First => (vec![1], vec![vec![mono(1, &[(0, 1)])]], vec![]),
        Driver::Second => (vec![1, 1], vec![vec![mono(2, &[(0, 1)]), mono(2, &[(1, 1)])]], vec![]),
        Driver::Third => (vec![1, 1, 1], vec![vec![mono(3, &[(0, 1)]), mono(3, &[(1, 1)]), mono(3, &[(2, 1)])]], vec![]),
        Driver::Gradient | Driver::Jacobian => (vec![n.max(1)], (0..n).map(|i| vec![mono(1, &[(0, i + 1)])]).collect(), vec![]),
        Driver::Hessian => (vec![n.max(1), n.max(1)], (0..n).map(|i| vec![mono(2, &[(0, i + 1)]), mono(2, &[(1, i + 1)])]).collect(), vec![]),
        Driver::SecondPartial => (vec![1, 1], vec![vec![mono(2, &[(0, 1)])], vec![mono(2, &[(1, 1)])]], vec![]),
        Driver::PartialHessian => (
            vec![n.max(1), n2.max(1)],
            (0..n).map(|i| vec![mono(2, &[(0, i + 1)])]).chain((0..n2).map(|j| vec![mono(2, &[(1, j + 1)])])).collect(),
            vec![],
        ),
        Driver::ThirdPartial => (vec![1, 1, 1], vec![vec![mono(3, &[(0, 1)])], vec![mono(3, &[(1, 1)])], vec![mono(3, &[(2, 1)])]], vec![]),
        Driver::ThirdPartialVec => {
            let (i, j, k) = (case.idx.0 as usize % n, case.idx.1 as usize % n, case.idx.2 as usize % n);
            let mut s: Vec<Vec<Mono>> = vec![vec![]; n];
            s[i].push(mono(3, &[(0, 1)]));
            s[j].push(mono(3, &[(1, 1)]));
            s[k].push(mono(3, &[(2, 1)]));
            (vec![1, 1, 1], s, vec![])
        }
        Driver::FirstInner => (vec![1, 1], vec![vec![mono(2, &[(0, 1)])]], vec![(0, mono(2, &[(1, 1)]), case.inner[0])]),
        Driver::SecondInner => (vec![1, 1, 1], vec![vec![mono(3, &[(0, 1)]), mono(3, &[(1, 1)])]], vec![(0, mono(3, &[(2, 1)]), case.inner[0])]),
        Driver::GradientInner => (
            vec![2, 1],
            vec![vec![mono(2, &[(0, 1)])], vec![mono(2, &[(0, 2)])]],
            vec![(0, mono(2, &[(1, 1)]), case.inner[0]), (1, mono(2, &[(1, 1)]), case.inner[1 % case.inner.len()])],
        ),
    };
    let (alg, rf) = match ref_eval(&prog, &sizes, &x, &seeds, &extra) {
        Some(r) => r,
        None => return Verdict::Trivial("reference out of domain"),
    };
    if max_mag(&rf) > 1e250 {
        return Verdict::Trivial("magnitude out of range of the float type");
    }
    let what = format!("{:?}{}{} n={} m={}", case.driver, if case.try_variant { " (try_)" } else { "" }, if dynamic { " dynamic" } else { " static" }, if n2 > 0 { format!("{n}+{n2}") } else { format!("{n}") }, m);
    let mut cx = Ctx { prog, alg, rf, case: &case2, what: what.clone(), worst: 0.0, vals: vec![] };
    let r: Out = match case.driver {
        Driver::Gradient => {
            if dynamic {
                run_gradient::<Dyn>(&mut cx)
            } else {
                match n {
                    1 => run_gradient::<Const<1>>(&mut cx),
                    2 => run_gradient::<Const<2>>(&mut cx),
                    3 => run_gradient::<Const<3>>(&mut cx),
                    4 => run_gradient::<Const<4>>(&mut cx),
                    _ => run_gradient::<Const<6>>(&mut cx),
                }
            }
        }
        Driver::Hessian => {
            if dynamic {
                run_hessian::<Dyn>(&mut cx)
            } else {
                match n {
                    1 => run_hessian::<Const<1>>(&mut cx),
                    2 => run_hessian::<Const<2>>(&mut cx),
                    3 => run_hessian::<Const<3>>(&mut cx),
                    4 => run_hessian::<Const<4>>(&mut cx),
                    _ => run_hessian::<Const<6>>(&mut cx),
                }
            }
        }
        Driver::Jacobian => {
            if dynamic {
                run_jacobian::<Dyn, Dyn>(&mut cx, m)
            } else {
                macro_rules! jm {
                    ($n:literal) => {
                        match m {
                            1 => run_jacobian::<Const<1>, Const<$n>>(&mut cx, m),
                            2 => run_jacobian::<Const<2>, Const<$n>>(&mut cx, m),
                            3 => run_jacobian::<Const<3>, Const<$n>>(&mut cx, m),
                            4 => run_jacobian::<Const<4>, Const<$n>>(&mut cx, m),
                            _ => run_jacobian::<Const<6>, Const<$n>>(&mut cx, m),
                        }
                    };
                }
                match n {
                    1 => jm!(1),
                    2 => jm!(2),
                    3 => jm!(3),
                    4 => jm!(4),
                    _ => jm!(6),
                }
            }
        }
        Driver::PartialHessian => {
            if dynamic {
                run_partial_hessian::<Dyn, Dyn>(&mut cx, n)
            } else {
                macro_rules! ph {
                    ($n:literal) => {
                        match n2 {
                            1 => run_partial_hessian::<Const<$n>, Const<1>>(&mut cx, n),
                            2 => run_partial_hessian::<Const<$n>, Const<2>>(&mut cx, n),
                            3 => run_partial_hessian::<Const<$n>, Const<3>>(&mut cx, n),
                            4 => run_partial_hessian::<Const<$n>, Const<4>>(&mut cx, n),
                            _ => run_partial_hessian::<Const<$n>, Const<6>>(&mut cx, n),
                        }
                    };
                }
                match n {
                    1 => ph!(1),
                    2 => ph!(2),
                    3 => ph!(3),
                    4 => ph!(4),
                    _ => ph!(6),
                }
            }
        }
        _ => run_scalar(&mut cx),
    };
    match r {
        Err(v) => v,
        Ok(compared) => {
            st.class(&format!("driver:{:?}", case.driver));
            st.class(if case.try_variant { if case.fail { "try_: closure fails" } else { "try_: closure succeeds" } } else { "infallible variant" });
            if matches!(case.driver, Driver::Gradient | Driver::Jacobian | Driver::Hessian | Driver::PartialHessian) {
                st.class(&format!("{} n={}{} m={}", if dynamic { "dynamic" } else { "static" }, n, if n2 > 0 { format!("+{n2}") } else { String::new() }, m));
            }
            st.ratio(&format!("{:?}", case.driver), cx.worst);
            // non-trivial: at least two variables and all compared reference values pairwise distinct
            // (the function is not symmetric under exchanging variables / outputs at this point)
            let mut v = cx.vals.clone();
            v.sort_by(|a, b| a.partial_cmp(b).unwrap_or(std::cmp::Ordering::Equal));
            let distinct = v.windows(2).all(|w| (w[0] - w[1]).abs() > 1e-9 * w[0].abs().max(w[1].abs()).max(1e-300));
            let nontrivial = compared && nvar >= 2 && v.len() >= 3 && (distinct || matches!(case.driver, Driver::Hessian));
            if nontrivial && st.wants_sample() {
                st.sample(|| json!({"driver": what, "function": render(&cx.prog), "point": x, "reference_values": cx.vals}));
            }
            Verdict::Pass { nontrivial: nontrivial || (case.fail && case.try_variant) }
        }
    }
}

/// The seeding builders the drivers are made of, called directly (users seed by hand as well):
/// `derivative()`, `derivative1/2/3()`, `Derivative::derivative()`, `Derivative::derivative_generic`,
/// `unwrap()` / `unwrap_generic` of absent parts. Deterministic, enumerated once per run.
fn builder_checks(st: &mut Stats) -> Vec<(Case, String, String)> {
    use nalgebra::{Const, Dyn};
    let mut fails: Vec<(Case, String, String)> = vec![];
    let dummy = || Case { driver: Driver::First, try_variant: false, fail: false, err: 0, dynamic: false, n: 1, n2: 0, m: 1, x: vec![1.0], raw: vec![RawOp { code: 0, a: 0, b: 0, c: 0, k: 0.0, n: 0 }], idx: (0, 0, 0), inner: vec![0.0], wide: 0, wu: 0.0 };
    let mut expect = |name: &str, got: Vec<f64>, want: Vec<f64>| {
        st.evaluations += 1;
        if got.len() == want.len() && got.iter().zip(&want).all(|(a, b)| a.to_bits() == b.to_bits()) {
            st.passes += 1;
            st.count("seeding_builder_checks", 1);
        } else {
            fails.push((dummy(), format!("C05/builder/{name}"), format!("{name} gives {got:?}, expected {want:?}")));
        }
    };
    for x in [1.5f64, -0.0, 0.0, -2.25e10] {
        let d = Dual64::from_re(x).derivative();
        expect("Dual::derivative", vec![d.re, d.eps], vec![x, 1.0]);
        let d = Dual2_64::from_re(x).derivative();
        expect("Dual2::derivative", vec![d.re, d.v1, d.v2], vec![x, 1.0, 0.0]);
        let d = Dual3_64::from_re(x).derivative();
        expect("Dual3::derivative", vec![d.re, d.v1, d.v2, d.v3], vec![x, 1.0, 0.0, 0.0]);
        let d = HyperDual64::from_re(x).derivative1();
        expect("HyperDual::derivative1", vec![d.re, d.eps1, d.eps2, d.eps1eps2], vec![x, 1.0, 0.0, 0.0]);
        let d = HyperDual64::from_re(x).derivative2();
        expect("HyperDual::derivative2", vec![d.re, d.eps1, d.eps2, d.eps1eps2], vec![x, 0.0, 1.0, 0.0]);
        let d = HyperDual64::from_re(x).derivative1().derivative2();
        expect("HyperDual::derivative1().derivative2()", vec![d.re, d.eps1, d.eps2, d.eps1eps2], vec![x, 1.0, 1.0, 0.0]);
        let h = HyperHyperDual64::from_re(x);
        let all = |d: HyperHyperDual64| vec![d.re, d.eps1, d.eps2, d.eps3, d.eps1eps2, d.eps1eps3, d.eps2eps3, d.eps1eps2eps3];
        expect("HyperHyperDual::derivative1", all(h.derivative1()), vec![x, 1.0, 0.0, 0.0, 0.0, 0.0, 0.0, 0.0]);
        expect("HyperHyperDual::derivative2", all(h.derivative2()), vec![x, 0.0, 1.0, 0.0, 0.0, 0.0, 0.0, 0.0]);
        expect("HyperHyperDual::derivative3", all(h.derivative3()), vec![x, 0.0, 0.0, 1.0, 0.0, 0.0, 0.0, 0.0]);
        expect("HyperHyperDual::derivative1().derivative2().derivative3()", all(h.derivative1().derivative2().derivative3()), vec![x, 1.0, 1.0, 1.0, 0.0, 0.0, 0.0, 0.0]);
        // nested: the seed is the ONE of the inner type (a constant)
        let d = Dual::<Dual64, f64>::from_re(Dual64::new(x, 0.75)).derivative();
        expect("Dual<Dual64>::derivative", vec![d.re.re, d.re.eps, d.eps.re, d.eps.eps], vec![x, 0.75, 1.0, 0.0]);
        let d = Dual2::<Dual64, f64>::from_re(Dual64::new(x, 0.75)).derivative();
        expect("Dual2<Dual64>::derivative", vec![d.re.re, d.re.eps, d.v1.re, d.v1.eps, d.v2.re, d.v2.eps], vec![x, 0.75, 1.0, 0.0, 0.0, 0.0]);
        let d = Dual32::from_re(x as f32).derivative();
        expect("Dual32::derivative", vec![d.re as f64, d.eps as f64], vec![x as f32 as f64, 1.0]);
    }
    // the optional container
    let one = Derivative::<f64, f64, U1, U1>::derivative();
    expect("Derivative::derivative().unwrap()", vec![one.unwrap()], vec![1.0]);
    expect("Derivative::none().unwrap()", vec![Derivative::<f64, f64, U1, U1>::none().unwrap()], vec![0.0]);
    for n in 1..=6usize {
        for i in 0..n {
            let e = Derivative::<f64, f64, Dyn, U1>::derivative_generic(Dyn(n), U1, i).unwrap_generic(Dyn(n), U1);
            expect("Derivative::derivative_generic (column)", e.iter().copied().collect(), (0..n).map(|k| if k == i { 1.0 } else { 0.0 }).collect());
            let e = Derivative::<f64, f64, U1, Dyn>::derivative_generic(U1, Dyn(n), i).unwrap_generic(U1, Dyn(n));
            expect("Derivative::derivative_generic (row)", e.iter().copied().collect(), (0..n).map(|k| if k == i { 1.0 } else { 0.0 }).collect());
        }
        let z = Derivative::<f64, f64, Dyn, Dyn>::none().unwrap_generic(Dyn(n), Dyn(n + 1));
        expect("Derivative::none().unwrap_generic", vec![z.nrows() as f64, z.ncols() as f64, z.iter().map(|v| v.abs()).sum()], vec![n as f64, (n + 1) as f64, 0.0]);
    }
    let e = Derivative::<f64, f64, Const<3>, U1>::derivative_generic(Const::<3>, U1, 2).unwrap_generic(Const::<3>, U1);
    expect("Derivative::derivative_generic (static)", e.iter().copied().collect(), vec![0.0, 0.0, 1.0]);
    fails
}

impl Property for C05 {
    type Case = Case;
    const ID: &'static str = "C05";
    fn exhaustive(_tier: Tier, st: &mut Stats) -> Vec<(Case, String, String)> {
        builder_checks(st)
    }
    fn strategy(tier: Tier) -> BoxedStrategy<Case> {
        let driver = prop_oneof![
            1 => Just(Driver::First),
            1 => Just(Driver::Second),
            1 => Just(Driver::Third),
            3 => Just(Driver::Gradient),
            4 => Just(Driver::Jacobian),
            3 => Just(Driver::Hessian),
            1 => Just(Driver::SecondPartial),
            4 => Just(Driver::PartialHessian),
            1 => Just(Driver::ThirdPartial),
            4 => Just(Driver::ThirdPartialVec),
            1 => Just(Driver::FirstInner),
            1 => Just(Driver::GradientInner),
            1 => Just(Driver::SecondInner),
        ];
        let max_nodes = if tier == Tier::Quick { 10 } else { 24 };
        (
            (driver, any::<bool>(), proptest::bool::weighted(0.3), any::<i64>(), any::<bool>()),
            (any::<u8>(), any::<u8>(), any::<u8>()),
            proptest::collection::vec(input_real(), 6),
            proptest::collection::vec(raw_op(), 2..=max_nodes),
            (any::<u8>(), any::<u8>(), any::<u8>()),
            proptest::collection::vec(part_value(), 2),
            (prop_oneof![9 => Just(0u8), 1 => 1u8..=255], 0.0f64..1.0),
        )
            .prop_map(|((driver, try_variant, fail, err, dynamic), (n, n2, m), x, raw, idx, inner, (wide, wu))| Case { driver, try_variant, fail: fail && try_variant, err, dynamic, n, n2, m, x, raw, idx, inner, wide, wu })
            .boxed()
    }
    fn check(case: &Case, st: &mut Stats) -> Verdict {
        if case.x.is_empty() || case.raw.is_empty() || case.inner.is_empty() || case.x.iter().any(|x| !x.is_finite() || x.abs() > 1e3) || case.raw.iter().any(|r| !r.k.is_finite() || r.k.abs() > 1.0) || case.inner.iter().any(|x| !x.is_finite()) || !case.wu.is_finite() {
            return Verdict::Trivial("malformed case");
        }
        check_case(case, st)
    }
    fn cases(tier: Tier) -> u64 {
        match tier {
            Tier::Quick => 400_000,
            Tier::Thorough => 30_000_000,
        }
    }
    fn rule() -> String {
        "generated: functions R^n -> R^m as one shared expression DAG (C03 opcodes) whose last m nodes are the outputs, n in 0..6, m in 1..6, static instantiations for n, m in {1,2,3,4,6} (all 25 (n,m) combinations for jacobian and partial_hessian) and dynamic storage for every size incl. n = 0; the point (one case in ten: a wide-magnitude point, every coordinate m_i*10^e with e uniform in +-300/(d+1), with a template function of quotients, products and one elementary function); all 20 drivers (10 + their try_ variants), third_partial_derivative_vec with generated index triples incl. repeated indices, first/second derivative and gradient also with dual numbers inside (T = Dual64). Oracle: the partial derivatives read off the reference algebra seeded with unit generators exactly as the documentation describes (gradient[i] = e_i coefficient, jacobian[(i,j)] = e_j coefficient of output i, hessian/partial_hessian[(i,j)] = a_i b_j coefficient, the 4/8 tuples), tolerance 32 u e; shapes; try_ variants return Err(e) with exactly the generated e when the closure fails and bit-identical values otherwise. The seeding builders (derivative(), derivative1/2/3(), Derivative::derivative / derivative_generic / unwrap / unwrap_generic) are enumerated directly once per run (counter seeding_builder_checks). Non-trivial: >= 2 variables and all compared reference values pairwise distinct (so a transposed / swapped / mis-seeded result cannot coincide), or a failing closure.".into()
    }
    fn assumptions() -> Vec<String> {
        vec!["static sizes limited to {1,2,3,4,6}; dynamic 0..6".into()]
    }
}
