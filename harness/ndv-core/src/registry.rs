//! The list of registered concrete types and a visitor-style dispatcher.

use crate::types::Ty;
use nalgebra::{Const, Dyn};
use num_dual::*;

#[derive(Clone, Copy, Debug, PartialEq, Eq)]
pub enum Kind {
    Scalar,
    Vector,
    Nested,
}

#[derive(Clone, Copy, Debug)]
pub struct TypeInfo {
    pub name: &'static str,
    pub kind: Kind,
    /// number of run-time dimensions (0 static, 1 or 2 dynamic)
    pub ndyn: usize,
    pub is32: bool,
    /// total derivative order
    pub order: usize,
    /// has optional (vector) parts
    pub optional: bool,
    /// is Copy (needed by BesselDual)
    pub copy: bool,
    /// implements nalgebra's RealField / PartialOrd (the four field-compatible types)
    pub field: bool,
}

/// visitor for the Copy types (needed by the BesselDual trait)
pub trait TyVisitorCopy {
    type Out;
    fn visit<T>(self, dims: &[usize]) -> Self::Out
    where
        T: Ty + DualNum<<T as Ty>::F> + Copy + BesselDual;
}

macro_rules! field_arm {
    (true, $v:ident, $t:ty, $dims:ident) => {
        $v.visit::<$t>($dims)
    };
    (false, $v:ident, $t:ty, $dims:ident) => {
        panic!("HARNESS-BUG: type is not field-compatible")
    };
}

/// visitor for the four field-compatible types (nalgebra RealField, PartialOrd)
pub trait TyVisitorField {
    type Out;
    fn visit<T>(self, dims: &[usize]) -> Self::Out
    where
        T: Ty + DualNum<<T as Ty>::F> + PartialOrd + nalgebra::RealField + nalgebra::SimdValue<Element = T, SimdBool = bool>,
        <T as Ty>::F: nalgebra::RealField;
}

macro_rules! bessel_arm {
    (false, true, $v:ident, $t:ty, $dims:ident) => {
        $v.visit::<$t>($dims)
    };
    ($a:tt, $b:tt, $v:ident, $t:ty, $dims:ident) => {
        panic!("HARNESS-BUG: type has no BesselDual implementation")
    };
}

/// visitor that may also use the by-reference operator forms and the reference iterators
pub trait TyVisitorRef {
    type Out;
    fn visit<T>(self, dims: &[usize]) -> Self::Out
    where
        T: Ty + DualNum<<T as Ty>::F> + num_traits::FloatConst,
        T: for<'a> std::iter::Sum<&'a T> + for<'a> std::iter::Product<&'a T>,
        for<'a> &'a T: std::ops::Add<&'a T, Output = T>
            + std::ops::Sub<&'a T, Output = T>
            + std::ops::Mul<&'a T, Output = T>
            + std::ops::Div<&'a T, Output = T>
            + std::ops::Add<T, Output = T>
            + std::ops::Sub<T, Output = T>
            + std::ops::Mul<T, Output = T>
            + std::ops::Div<T, Output = T>
            + std::ops::Neg<Output = T>;
}

/// visitor that can also name the inner number type of a (nested) dual number
pub trait TyVisitorInner {
    type Out;
    fn visit<T>(self, dims: &[usize]) -> Self::Out
    where
        T: Ty + DualNum<<T as Ty>::F>,
        <T as DualNum<<T as Ty>::F>>::Inner: Ty<F = <T as Ty>::F>;
}

pub trait TyVisitor {
    type Out;
    fn visit<T>(self, dims: &[usize]) -> Self::Out
    where
        T: Ty + DualNum<<T as Ty>::F>;
}

macro_rules! registry {
    ($( ($id:expr, $name:literal, $t:ty, $kind:ident, $ndyn:expr, $is32:tt, $order:expr, $opt:expr, $copy:tt, $field:tt) ),* $(,)?) => {
        pub const TYPES: &[TypeInfo] = &[
            $( TypeInfo { name: $name, kind: Kind::$kind, ndyn: $ndyn, is32: $is32, order: $order, optional: $opt, copy: $copy, field: $field } ),*
        ];
        pub fn dispatch<V: TyVisitor>(tid: usize, dims: &[usize], v: V) -> V::Out {
            match tid {
                $( $id => v.visit::<$t>(dims), )*
                _ => panic!("HARNESS-BUG: unknown type id {tid}"),
            }
        }
        pub fn dispatch_inner<V: TyVisitorInner>(tid: usize, dims: &[usize], v: V) -> V::Out {
            match tid {
                $( $id => v.visit::<$t>(dims), )*
                _ => panic!("HARNESS-BUG: unknown type id {tid}"),
            }
        }
        pub fn dispatch_ref<V: TyVisitorRef>(tid: usize, dims: &[usize], v: V) -> V::Out {
            match tid {
                $( $id => v.visit::<$t>(dims), )*
                _ => panic!("HARNESS-BUG: unknown type id {tid}"),
            }
        }
        /// only the field-compatible types
        pub fn dispatch_field<V: TyVisitorField>(tid: usize, dims: &[usize], v: V) -> V::Out {
            match tid {
                $( $id => field_arm!($field, v, $t, dims), )*
                _ => panic!("HARNESS-BUG: unknown type id {tid}"),
            }
        }
        /// only f64 Copy types
        pub fn dispatch_bessel<V: TyVisitorCopy>(tid: usize, dims: &[usize], v: V) -> V::Out {
            match tid {
                $( $id => bessel_arm!($is32, $copy, v, $t, dims), )*
                _ => panic!("HARNESS-BUG: unknown type id {tid}"),
            }
        }
    };
}

type D64 = Dual64;

registry! {
    (0, "Dual64", Dual64, Scalar, 0, false, 1, false, true, true),
    (1, "Dual2_64", Dual2_64, Scalar, 0, false, 2, false, true, true),
    (2, "Dual3_64", Dual3_64, Scalar, 0, false, 3, false, true, false),
    (3, "HyperDual64", HyperDual64, Scalar, 0, false, 2, false, true, false),
    (4, "HyperHyperDual64", HyperHyperDual64, Scalar, 0, false, 3, false, true, false),
    (5, "Dual32", Dual32, Scalar, 0, true, 1, false, true, true),
    (6, "Dual2_32", Dual2_32, Scalar, 0, true, 2, false, true, true),
    (7, "Dual3_32", Dual3_32, Scalar, 0, true, 3, false, true, false),
    (8, "HyperDual32", HyperDual32, Scalar, 0, true, 2, false, true, false),
    (9, "HyperHyperDual32", HyperHyperDual32, Scalar, 0, true, 3, false, true, false),
    (10, "DualSVec64<1>", DualSVec64<1>, Vector, 0, false, 1, true, true, true),
    (11, "DualSVec64<2>", DualSVec64<2>, Vector, 0, false, 1, true, true, true),
    (12, "DualSVec64<3>", DualSVec64<3>, Vector, 0, false, 1, true, true, true),
    (13, "DualSVec64<4>", DualSVec64<4>, Vector, 0, false, 1, true, true, true),
    (14, "DualSVec64<5>", DualSVec64<5>, Vector, 0, false, 1, true, true, true),
    (15, "DualSVec64<6>", DualSVec64<6>, Vector, 0, false, 1, true, true, true),
    (16, "Dual2SVec64<1>", Dual2SVec64<1>, Vector, 0, false, 2, true, true, true),
    (17, "Dual2SVec64<2>", Dual2SVec64<2>, Vector, 0, false, 2, true, true, true),
    (18, "Dual2SVec64<3>", Dual2SVec64<3>, Vector, 0, false, 2, true, true, true),
    (19, "Dual2SVec64<4>", Dual2SVec64<4>, Vector, 0, false, 2, true, true, true),
    (20, "Dual2SVec64<5>", Dual2SVec64<5>, Vector, 0, false, 2, true, true, true),
    (21, "Dual2SVec64<6>", Dual2SVec64<6>, Vector, 0, false, 2, true, true, true),
    (22, "HyperDualSVec64<1,1>", HyperDualSVec64<1, 1>, Vector, 0, false, 2, true, true, false),
    (23, "HyperDualSVec64<1,3>", HyperDualSVec64<1, 3>, Vector, 0, false, 2, true, true, false),
    (24, "HyperDualSVec64<2,2>", HyperDualSVec64<2, 2>, Vector, 0, false, 2, true, true, false),
    (25, "HyperDualSVec64<2,3>", HyperDualSVec64<2, 3>, Vector, 0, false, 2, true, true, false),
    (26, "HyperDualSVec64<3,1>", HyperDualSVec64<3, 1>, Vector, 0, false, 2, true, true, false),
    (27, "HyperDualSVec64<3,3>", HyperDualSVec64<3, 3>, Vector, 0, false, 2, true, true, false),
    (28, "HyperDualSVec64<6,2>", HyperDualSVec64<6, 2>, Vector, 0, false, 2, true, true, false),
    (29, "HyperDualSVec64<2,6>", HyperDualSVec64<2, 6>, Vector, 0, false, 2, true, true, false),
    (30, "HyperDualSVec64<6,6>", HyperDualSVec64<6, 6>, Vector, 0, false, 2, true, true, false),
    (31, "DualDVec64", DualDVec64, Vector, 1, false, 1, true, false, true),
    (32, "Dual2DVec64", Dual2DVec64, Vector, 1, false, 2, true, false, true),
    (33, "HyperDualDVec64", HyperDualDVec64, Vector, 2, false, 2, true, false, false),
    (34, "DualSVec32<2>", DualSVec32<2>, Vector, 0, true, 1, true, true, true),
    (35, "DualSVec32<3>", DualSVec32<3>, Vector, 0, true, 1, true, true, true),
    (36, "Dual2SVec32<2>", Dual2SVec32<2>, Vector, 0, true, 2, true, true, true),
    (37, "Dual2SVec32<3>", Dual2SVec32<3>, Vector, 0, true, 2, true, true, true),
    (38, "HyperDualSVec32<2,3>", HyperDualSVec32<2, 3>, Vector, 0, true, 2, true, true, false),
    (39, "DualDVec32", DualDVec32, Vector, 1, true, 1, true, false, true),
    (40, "Dual2DVec32", Dual2DVec32, Vector, 1, true, 2, true, false, true),
    (41, "HyperDualDVec32", HyperDualDVec32, Vector, 2, true, 2, true, false, false),
    (42, "Dual<Dual64>", Dual<D64, f64>, Nested, 0, false, 2, false, true, false),
    (43, "Dual<Dual<Dual64>>", Dual<Dual<D64, f64>, f64>, Nested, 0, false, 3, false, true, false),
    (44, "Dual2<Dual64>", Dual2<D64, f64>, Nested, 0, false, 3, false, true, false),
    (45, "Dual<Dual2_64>", Dual<Dual2_64, f64>, Nested, 0, false, 3, false, true, false),
    (46, "Dual3<Dual64>", Dual3<D64, f64>, Nested, 0, false, 4, false, true, false),
    (47, "HyperDual<Dual64>", HyperDual<D64, f64>, Nested, 0, false, 3, false, true, false),
    (48, "Dual2<Dual2_64>", Dual2<Dual2_64, f64>, Nested, 0, false, 4, false, true, false),
    (49, "HyperDual<HyperDual64>", HyperDual<HyperDual64, f64>, Nested, 0, false, 4, false, true, false),
    (50, "DualVec<Dual64,2>", DualVec<D64, f64, Const<2>>, Nested, 0, false, 2, true, true, false),
    (51, "DualVec<Dual64,3>", DualVec<D64, f64, Const<3>>, Nested, 0, false, 2, true, true, false),
    (52, "Dual<DualSVec64<2>>", Dual<DualSVec64<2>, f64>, Nested, 0, false, 2, true, true, false),
    (53, "Dual2Vec<Dual64,2>", Dual2Vec<D64, f64, Const<2>>, Nested, 0, false, 3, true, true, false),
    (54, "Dual<Dual32>", Dual<Dual32, f32>, Nested, 0, true, 2, false, true, false),
    (55, "HyperDualVec<Dual64,2,2>", HyperDualVec<D64, f64, Const<2>, Const<2>>, Nested, 0, false, 3, true, true, false),
    (56, "DualVec<Dual64,Dyn>", DualVec<D64, f64, Dyn>, Nested, 1, false, 2, true, false, false),
    (57, "HyperHyperDual<Dual64>", HyperHyperDual<D64, f64>, Nested, 0, false, 4, false, true, false),
    (58, "DualVec<DualSVec64<2>,3>", DualVec<DualSVec64<2>, f64, Const<3>>, Nested, 0, false, 2, true, true, false),
    (59, "DualVec<DualDVec64,Dyn>", DualVec<DualDVec64, f64, Dyn>, Nested, 1, false, 2, true, false, false),
    (60, "Dual2Vec<DualSVec64<2>,2>", Dual2Vec<DualSVec64<2>, f64, Const<2>>, Nested, 0, false, 3, true, true, false),
}

pub fn n_types() -> usize {
    TYPES.len()
}
