//! C01 - elementary functions carry exact derivatives on every dual number type.

use crate::common::*;
use crate::engine::*;
use crate::prog::{apply_un, UNARY};
use crate::registry::{dispatch, TyVisitor, TYPES};
use crate::types::{Flt, Ty};
use ndv_oracle::taylor::Fun;
use ndv_oracle::{Jet, R};
use num_dual::DualNum;
use num_traits::Signed;
use proptest::prelude::*;
use serde::{Deserialize, Serialize};
use serde_json::json;

/// function index: 0..24 unary, 24 sin_cos.0, 25 sin_cos.1, 26 atan2, 27 abs_sub, 28 log(base)
pub const NFUN: usize = 29;
pub fn fun_name(i: usize) -> String {
    match i {
        0..=23 => UNARY[i].name().to_string(),
        24 => "sin_cos.0".into(),
        25 => "sin_cos.1".into(),
        26 => "atan2".into(),
        27 => "abs_sub".into(),
        _ => "log".into(),
    }
}

#[derive(Clone, Debug, Serialize, Deserialize)]
pub struct Case {
    pub ty: usize,
    pub dims: (u8, u8),
    pub fun: usize,
    pub s: u8,
    pub u: f64,
    pub s2: u8,
    pub u2: f64,
    pub parts: Vec<f64>,
    pub parts2: Vec<f64>,
    pub pres: Vec<bool>,
    pub zero: Vec<bool>,
    pub pres2: Vec<bool>,
    /// real part given directly (magnitude sweep), overriding the stratum material
    #[serde(default)]
    pub x0: Option<f64>,
}

type St = (f64, f64, bool);
const TINY: St = (1e-12, 1e-3, true);

fn pick(strata: &[St], neg_mirror: bool, s: u8, u: f64) -> f64 {
    let n = strata.len() * if neg_mirror { 2 } else { 1 };
    let k = s as usize % n;
    let (lo, hi, log) = strata[k % strata.len()];
    let x = if log { lo * (hi / lo).powf(u) } else { lo + (hi - lo) * u };
    if k >= strata.len() {
        -x
    } else {
        x
    }
}

/// absolute tolerance floor (f64, f32) in the wide-magnitude stratum: ~2^24 (f32: 2^16) subnormal spacings
pub const WIDE_FLOOR: (f64, f64) = (1e-300, 1e-40);
/// one case in ten takes its real part from the wide-magnitude stratum
pub fn is_wide(s: u8) -> bool {
    s >= 230
}
/// wide-magnitude stratum: |x| = 10^e with e uniform in [-L, L], L = 300/(d+1) (f32: 36/(d+1)) for a
/// type of total derivative order d: there the true value and every true derivative up to order d
/// of each function (at worst ~ |x|^-(d+1)) is representable, so no over-/underflow is forced by
/// the mathematics and the property's bound applies as stated
pub fn wide_limit(is32: bool, d: usize) -> f64 {
    (if is32 { 36.0 } else { 300.0 }) / (d as f64 + 1.0)
}
/// (lowest exponent, highest exponent, negative mirror allowed) of the wide stratum of a function
pub fn wide_range(fun: usize, l: f64, neg: bool) -> (f64, f64, bool) {
    if fun >= 24 {
        match fun {
            24 | 25 => (-l, -3.0, true),
            26 | 27 => (-l, l, true),
            _ => (-l, l, false),
        }
    } else {
        match UNARY[fun] {
            Fun::Recip | Fun::Abs | Fun::Signum | Fun::Cbrt | Fun::Atan | Fun::Asinh => (-l, l, true),
            Fun::Sqrt | Fun::Ln | Fun::Log2 | Fun::Log10 => (-l, l, false),
            Fun::Ln1p => {
                if neg {
                    (-l, -3.0, true)
                } else {
                    (-l, l, false)
                }
            }
            Fun::Acosh => (0.05, l, false),
            _ => (-l, -3.0, true),
        }
    }
}
pub fn wide_real(fun: usize, is32: bool, s: u8, u: f64, d: usize) -> f64 {
    let l = wide_limit(is32, d);
    let neg = s & 1 == 1;
    let (lo, hi, mirror) = wide_range(fun, l, neg);
    let e = lo + (hi - lo) * u;
    let x = 10f64.powf(e);
    if neg && mirror {
        -x
    } else {
        x
    }
}

/// a multiple k pi/4 (|k pi/4| <= max) plus a tiny offset (0, +-1e-10 .. 1.5e-9): zeros and extrema of sin /
/// cos and the octant boundaries of any argument reduction
fn pi4_multiple(s: u8, u: f64, max: f64) -> f64 {
    let kmax = (max / std::f64::consts::FRAC_PI_4).floor();
    let k = (u * (2.0 * kmax + 1.0)).floor() - kmax;
    k * std::f64::consts::FRAC_PI_4 + (s >> 4) as f64 * 1e-10 * if s & 1 == 0 { 1.0 } else { -1.0 }
}

/// real part for function `fun` from stratum material; `is32` narrows ranges to what f32 can hold
pub fn real_part(fun: usize, is32: bool, s: u8, u: f64) -> f64 {
    real_part_d(fun, is32, s % 230, u, 0)
}
/// as `real_part`, with the wide-magnitude stratum for a type of total derivative order `d`
///
/// `d` is the effective order: the total derivative order of the type, doubled for nested types
/// (there the closed forms themselves run in dual arithmetic and an intermediate like the inner
/// derivative -1/v^2 of 1/(1+x^2) must be representable too; observed: atan on Dual<Dual<f64>> at
/// 7.6e81 loses a part of true size 4.6e-246 to such an intermediate underflow)
pub fn real_part_d(fun: usize, is32: bool, s: u8, u: f64, d: usize) -> f64 {
    if is_wide(s) {
        return wide_real(fun, is32, s, u, d);
    }
    // one stratum in 13: exact special points inside the domain (0, +-1, 2, +-0.5, 3)
    if s % 13 == 12 && fun < 24 {
        let f = UNARY[fun];
        let cand: Vec<f64> = [0.0, 1.0, -1.0, 2.0, 0.5, -0.5, 3.0, -2.0].iter().copied().filter(|x| crate::prog::in_domain(f, *x)).collect();
        if !cand.is_empty() {
            return cand[((u * cand.len() as f64) as usize).min(cand.len() - 1)];
        }
    }
    let big = if is32 { 40.0 } else { 300.0 };
    if fun >= 24 {
        return match fun {
            24 | 25 if s % 7 == 6 => pi4_multiple(s, u, 400.0),
            24 | 25 => pick(&[(0.0, 4.0, false), (4.0, 100.0, false), (100.0, 1e4, false), TINY], true, s, u),
            26 => pick(&[(1e-2, 1e2, true), (0.0, 3.0, false)], true, s, u),
            27 => pick(&[(0.0, 3.0, false)], true, s, u),
            _ => pick(&[(1e-3, 1e4, true), (0.9, 1.1, false)], false, s, u),
        };
    }
    match UNARY[fun] {
        Fun::Recip | Fun::Abs | Fun::Signum => pick(&[(1e-3, 1e3, true), (0.5, 2.0, false)], true, s, u),
        Fun::Sqrt => pick(&[(1e-3, 1e4, true), (0.5, 2.0, false)], false, s, u),
        Fun::Cbrt => pick(&[(1e-3, 1e4, true), (0.5, 2.0, false)], true, s, u),
        Fun::Exp | Fun::Exp2 | Fun::Sinh | Fun::Cosh => pick(&[(0.0, 1.0, false), (1.0, 30.0, false), (30.0, big, false), TINY], true, s, u),
        Fun::ExpM1 => pick(&[(0.0, 1.0, false), (1.0, 30.0, false), TINY, (1e-3, 0.1, true)], true, s, u),
        Fun::Ln | Fun::Log2 | Fun::Log10 => pick(&[(1e-3, 1e4, true), (0.9, 1.1, false), (1.1, 3.0, false)], false, s, u),
        Fun::Ln1p => {
            let k = s % 5;
            match k {
                0 => pick(&[(-0.9, 0.0, false)], false, 0, u),
                1 => pick(&[(0.0, 10.0, false)], false, 0, u),
                2 => pick(&[(10.0, 1e4, true)], false, 0, u),
                3 => pick(&[TINY], false, 0, u),
                _ => -pick(&[TINY], false, 0, u),
            }
        }
        Fun::Sin | Fun::Cos if s % 7 == 6 => pi4_multiple(s, u, 400.0),
        Fun::Sin | Fun::Cos => pick(&[(0.0, 4.0, false), (4.0, 100.0, false), (100.0, 1e4, false), TINY], true, s, u),
        Fun::Tan if s % 7 == 6 => {
            // zeros k pi and the points (2k+1) pi/4; the poles are excluded by the domain margin
            let k = (u * 60.0).floor() - 30.0;
            let z = if s & 8 == 0 { k * std::f64::consts::PI } else { (2.0 * k + 1.0) * std::f64::consts::FRAC_PI_4 };
            z + (s >> 4) as f64 * 1e-10 * if s & 1 == 0 { 1.0 } else { -1.0 }
        }
        Fun::Tan => {
            let mut x = pick(&[(0.0, 1.4, false), (1.4, 100.0, false), TINY], true, s, u);
            if x.cos().abs() < 0.05 {
                x += 0.2;
            }
            x
        }
        Fun::Asin | Fun::Acos | Fun::Atanh => pick(&[(0.0, 0.95, false), (0.8, 0.95, false), TINY], true, s, u),
        Fun::Atan | Fun::Asinh => pick(&[(0.0, 3.0, false), (1.0, 1e4, true), TINY], true, s, u),
        Fun::Tanh => pick(&[(0.0, 3.0, false), (3.0, 30.0, false), (30.0, if is32 { 100.0 } else { 800.0 }, false), TINY], true, s, u),
        Fun::Acosh => pick(&[(1.05, 10.0, false), (10.0, 1e4, true)], false, s, u),
        _ => 1.0,
    }
}

pub struct C01;

struct V<'a> {
    case: &'a Case,
    st: &'a mut Stats,
}

impl<'a> TyVisitor for V<'a> {
    type Out = Verdict;
    fn visit<T>(self, dims: &[usize]) -> Verdict
    where
        T: Ty + DualNum<<T as Ty>::F>,
    {
        let case = self.case;
        let st = self.st;
        let lay = T::layout(dims);
        let alg = lay.alg();
        ndv_oracle::ring::set_unit(<T::F as Flt>::U);
        let is32 = <T::F as Flt>::IS32;
        let d = if T::levels() > 1 { 2 * alg.depth() + 1 } else { alg.depth() };
        let fname = fun_name(case.fun);
        let x0 = case.x0.unwrap_or_else(|| real_part_d(case.fun, is32, case.s, case.u, d));
        let wide = case.x0.is_some() || is_wide(case.s) || (matches!(case.fun, 26 | 27) && is_wide(case.s2));
        struct Reset;
        impl Drop for Reset {
            fn drop(&mut self) {
                FLOOR_OVERRIDE.with(|c| c.set(None));
            }
        }
        let _reset = Reset;
        if wide {
            FLOOR_OVERRIDE.with(|c| c.set(Some(WIDE_FLOOR)));
        }
        let mut fx = make_flat::<T::F>(&lay, x0, &case.parts, &case.pres, &case.zero);
        // one case in four (unary functions): a pure first-order seed - every part of order >= 2 is
        // zero, as for a freshly seeded variable; only there the f'' and f''' terms are not masked
        // by f' times a higher-order part when the coefficients differ by orders of magnitude
        let pure_seed = ((case.fun < 26 && case.s2 % 4 == 0) || case.x0.is_some()) && lay.max_order() >= 2;
        if pure_seed {
            for (i, sl) in lay.slots.iter().enumerate() {
                if sl.order >= 2 {
                    fx.vals[i] = 0.0;
                }
            }
        }
        let x = T::from_flat(dims, &fx);
        let xj = lay.embed(&alg, &fx.vals, &fx.pres);
        let x0r = fx.vals[0];
        // second operand
        let y0 = match case.fun {
            26 => {
                // atan2(x, y): keep away from the origin; 10 % exactly on an axis
                let v = real_part_d(26, is32, case.s2, case.u2, d);
                if case.s2 % 10 == 9 {
                    0.0
                } else if case.s2 % 10 == 8 {
                    // the diagonals |y| = |x| (bit-equal magnitudes): the switch between atan(y/x) and
                    // -atan(x/y) + pi/2 sits there
                    if case.s2 >= 128 {
                        -x0
                    } else {
                        x0
                    }
                } else {
                    v
                }
            }
            27 => real_part_d(27, is32, case.s2, case.u2, d),
            _ => 0.0,
        };
        let fy = make_flat::<T::F>(&lay, y0, &case.parts2, &case.pres2, &case.zero);
        let y = T::from_flat(dims, &fy);
        let yj = lay.embed(&alg, &fy.vals, &fy.pres);

        let (lib, rf): (T, Option<Jet>) = match case.fun {
            0..=23 => {
                let f = UNARY[case.fun];
                (apply_un::<T, T::F>(f, &x), xj.apply(f))
            }
            24 => (x.sin_cos().0, xj.apply(Fun::Sin)),
            25 => (x.sin_cos().1, xj.apply(Fun::Cos)),
            26 => {
                if x0r.abs().max(fy.vals[0].abs()) < 1e-3 {
                    return Verdict::Trivial("atan2 too close to the origin");
                }
                if x0r == 0.0 && fy.vals[0] <= 0.0 {
                    return Verdict::Trivial("atan2 on its branch cut");
                }
                (x.atan2(y.clone()), xj.atan2(&yj))
            }
            27 => {
                let r = if x0r > fy.vals[0] { xj.sub(&yj) } else { Jet::zero(&alg) };
                (x.abs_sub(&y), Some(r))
            }
            _ => {
                // log with plain base
                let base = if case.s2 % 3 == 0 { 0.05 + 0.75 * case.u2 } else { 1.2 + 18.8 * case.u2 };
                // one case in eight: the base is bit-equal to the real part of the operand (log_b(b) = 1)
                let base = if case.s2 % 8 == 5 && x0r > 0.0 && x0r != 1.0 && x0r.is_finite() { x0r } else { round_to::<T::F>(base) };
                (x.log(<T::F as Flt>::from64(base)), xj.log(base))
            }
        };
        let rf = match rf {
            Some(r) if r.all_finite() => r,
            _ => return Verdict::Trivial("reference out of domain"),
        };
        if max_mag(std::slice::from_ref(&rf)) > huge::<T::F>() {
            return Verdict::Trivial("magnitude out of range of the float type");
        }
        let lf = lib.to_flat(dims);
        let c = compare::<T::F>(&lay, &alg, &lf, &rf, K, false, &fname);
        if c.out_of_domain {
            return Verdict::Trivial("reference out of domain");
        }
        if let Some((sig, why)) = c.fail {
            return Verdict::Fail {
                sig: format!("C01/{sig}"),
                why: format!("{} on {} at x={:e}: {}; operand {}", fname, T::tname(dims), x0r, why, flat_json(&lay, &fx)),
            };
        }
        st.ratio(&format!("{}{}", fname, if is32 { "/f32" } else { "" }), c.worst);
        st.class(&format!("fun:{fname}"));
        st.class(&format!("type:{}", TYPES[case.ty].name));
        st.class(if x0r < 0.0 { "x<0" } else { "x>=0" });
        if wide {
            st.class("wide-magnitude real part");
        }
        let _ = d;
        // non-trivial: a part of order >= 2 of the operand is non-zero (order-1 types: a
        // non-unit first-order part), and the case is not ill-conditioned
        let first_nonunit = lay.slots.iter().enumerate().any(|(i, s)| s.order == 1 && lay.slot_present(i, &fx.pres) && fx.vals[i] != 0.0 && fx.vals[i].abs() != 1.0);
        if pure_seed {
            st.class("pure first-order seed (all higher-order operand parts zero)");
        }
        let hi = if pure_seed {
            first_nonunit
        } else if lay.max_order() >= 2 {
            nonzero_parts(&lay, &fx, 2) >= 1
        } else { lay.slots.iter().enumerate().any(|(i, s)| s.order == 1 && lay.slot_present(i, &fx.pres) && fx.vals[i] != 0.0 && fx.vals[i].abs() != 1.0) };
        if c.ill {
            st.class("ill-conditioned");
        }
        if fx.pres.iter().any(|p| !*p) {
            st.class("operand has an absent part");
        }
        let nontrivial = hi && !c.ill;
        if nontrivial && st.wants_sample() {
            st.sample(|| {
                json!({"type": T::tname(dims), "function": fname, "operand": flat_json(&lay, &fx),
                    "library": flat_json(&lay, &lf), "reference": jet_json(&lay, &alg, &rf), "worst_error_over_u_e": c.worst})
            });
        }
        let _ = R::ZERO;
        Verdict::Pass { nontrivial }
    }
}

/// Deterministic magnitude sweep: every function on a freshly seeded variable (first-order parts 1 or -1.5,
/// higher-order parts 0) at |x| = m * 10^e (two mantissas m) for every integer exponent e of the function's wide
/// range, both signs - the standard use of the derivative drivers at very large and very small
/// arguments, where a formula with an over- or underflowing intermediate goes wrong.
fn sweep(_tier: Tier, st: &mut Stats) -> Vec<(Case, String, String)> {
    const MANT: [f64; 5] = [1.0, 1.7, 3.1, 5.9, 8.3];
    let mut fails = vec![];
    for (ty, info) in TYPES.iter().enumerate() {
        let scalar = matches!(info.kind, crate::registry::Kind::Scalar);
        let d = if scalar || matches!(info.kind, crate::registry::Kind::Vector) { info.order } else { 2 * info.order + 1 };
        let l = wide_limit(info.is32, d);
        for fun in 0..NFUN {
            for neg in [false, true] {
                let (lo, hi, mirror) = wide_range(fun, l, neg);
                if neg && !mirror {
                    continue;
                }
                let mut k = 0usize;
                let mut e = lo.ceil();
                // stay half a decade inside the limit: the mantissa adds up to one decade
                while e + 1.0 <= hi {
                    for shift in [0usize, 2] {
                        let x = MANT[(k + shift) % 5] * 10f64.powf(e);
                        k += 1;
                        let case = Case {
                            ty,
                            dims: (2, 2),
                            fun,
                            s: 255,
                            u: 0.0,
                            s2: 0,
                            u2: (k % 7) as f64 / 7.0,
                            parts: vec![if k % 2 == 0 { 1.0 } else { -1.5 }],
                            parts2: vec![1.0],
                            pres: vec![true],
                            zero: vec![false],
                            pres2: vec![true],
                            x0: Some(if neg { -x } else { x }),
                        };
                        let mut tmp = Stats::new();
                        tmp.frozen = true;
                        let v = C01::check(&case, &mut tmp);
                        st.evaluations += 1;
                        match v {
                            Verdict::Pass { nontrivial } => {
                                st.passes += 1;
                                st.count("magnitude_sweep_points", 1);
                                // with the non-unit seed the verdict is non-trivial unless the reference bound is
                                // too loose to decide (32 u e > 1e-3 * term magnitude)
                                if k % 2 == 1 && !nontrivial && info.order >= 1 {
                                    st.count("magnitude_sweep_points_with_loose_bound", 1);
                                }
                            }
                            Verdict::Trivial(_) => st.count("magnitude_sweep_points_out_of_domain", 1),
                            Verdict::Fail { sig, why } => {
                                if fails.len() < 4 {
                                    fails.push((case, sig, format!("[magnitude sweep] {why}")));
                                }
                            }
                        }
                    }
                    e += 1.0;
                }
            }
        }
    }
    st.class("magnitude sweep enumerated");
    fails
}

impl Property for C01 {
    type Case = Case;
    const ID: &'static str = "C01";
    fn strategy(_tier: Tier) -> BoxedStrategy<Case> {
        (
            (0..TYPES.len(), dims_strategy(), 0..NFUN),
            (any::<u8>(), 0.0f64..1.0, any::<u8>(), 0.0f64..1.0),
            (parts_pool(), parts_pool()),
            (presence(), proptest::collection::vec(proptest::bool::weighted(0.75), 8)),
        )
            .prop_map(|((ty, dims, fun), (s, u, s2, u2), (parts, parts2), ((pres, zero), pres2))| Case {
                ty,
                dims,
                fun,
                s,
                u,
                s2,
                u2,
                parts,
                parts2,
                pres,
                zero,
                pres2,
                x0: None,
            })
            .boxed()
    }
    fn check(case: &Case, st: &mut Stats) -> Verdict {
        if case.ty >= TYPES.len() || case.fun >= NFUN || case.parts.is_empty() || case.parts2.is_empty() || case.pres.is_empty() || case.zero.is_empty() || case.pres2.is_empty() {
            return Verdict::Trivial("malformed case");
        }
        let dims = [case.dims.0 as usize % 7, case.dims.1 as usize % 7];
        dispatch(case.ty, &dims, V { case, st })
    }
    fn cases(tier: Tier) -> u64 {
        match tier {
            Tier::Quick => 400_000,
            Tier::Thorough => 20_000_000,
        }
    }
    fn exhaustive(tier: Tier, st: &mut Stats) -> Vec<(Case, String, String)> {
        sweep(tier, st)
    }
    fn rule() -> String {
        "generated: (type from the 61-type registry incl. f32, static/dynamic vector, nested; function from the 29 elementary functions; real part from per-function strata incl. negative, tiny, large (atan2: 10% on an axis, 10% on a diagonal |y| = |x|; sin, cos, sin_cos, tan: one in seven at a multiple of pi/4 plus 0..1.5e-9); every derivative part from a mixture 0/+-1/dyadic/uniform/log-uniform; optional parts absent 25%, explicit zeros 10%). Oracle: the function applied in the independent group-nilsquare reference algebra with power-series recurrences, tolerance 32*u*e per part with e the running first-order rounding bound (summed magnitude of contributing terms). One case in ten takes the real part from the wide-magnitude stratum |x| = 10^e, e uniform in +-300/(d+1) (f32: +-36/(d+1)), d the total order of the type (2d+1 for nested types), where every true derivative is representable; one unary case in four is a pure first-order seed (all operand parts of order >= 2 zero). Non-trivial: an operand part of order >= 2 is non-zero (order-1 types and pure seeds: a non-zero non-unit first-order part) and 32*u*e <= 1e-3 * (summed term magnitude); distinct = distinct case fingerprints.".into()
    }
    fn assumptions() -> Vec<String> {
        vec![
            "libm leaf functions (exp, sin, ...) are accurate to ~1 ulp; the reference calls the same libm for the real part".into(),
            "the reference algebra and Taylor recurrences in ndv-oracle are correct (validated against mpmath tables in `ndv selftest`)".into(),
            "errors below 32*u*e per part are invisible".into(),
        ]
    }
}
