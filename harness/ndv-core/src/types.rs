//! Type registry: describes every concrete num-dual type to the harness through public API only
//! (fields, `Derivative::{some,none,unwrap_generic}`), and gives its embedding into the reference
//! algebra (DESIGN.md 3.1 / 3.2).

use nalgebra::allocator::Allocator;
use nalgebra::{DefaultAllocator, Dim, OMatrix, U1};
use ndv_oracle::{Alg, Jet, Mono, R};
use num_dual::*;
use std::sync::Arc;

/// float width under test
pub trait Flt: DualNumFloat + DualNum<Self> + Copy + PartialOrd + Default + Send + Sync + 'static {
    /// unit roundoff
    const U: f64;
    const IS32: bool;
    const FLOOR: f64;
    const NAME: &'static str;
    fn from64(x: f64) -> Self;
    fn to64(self) -> f64;
}
impl Flt for f64 {
    const U: f64 = 1.1102230246251565e-16;
    const IS32: bool = false;
    const FLOOR: f64 = 1e-270;
    const NAME: &'static str = "f64";
    #[inline]
    fn from64(x: f64) -> f64 {
        x
    }
    #[inline]
    fn to64(self) -> f64 {
        self
    }
}
impl Flt for f32 {
    const U: f64 = 5.960464477539063e-8;
    const IS32: bool = true;
    const FLOOR: f64 = 1e-30;
    const NAME: &'static str = "f32";
    #[inline]
    fn from64(x: f64) -> f32 {
        x as f32
    }
    #[inline]
    fn to64(self) -> f64 {
        self as f64
    }
}

#[derive(Clone, Debug)]
pub struct Slot {
    /// monomials this part is embedded on (symmetric copies); the first is the representative
    pub monos: Vec<Mono>,
    /// innermost optional block instance containing the slot
    pub block: Option<usize>,
    pub name: String,
    /// total derivative order of the part
    pub order: u8,
}
#[derive(Clone, Debug)]
pub struct Block {
    pub parent: Option<usize>,
    pub name: String,
}
#[derive(Clone, Debug, Default)]
pub struct Layout {
    pub groups: Vec<usize>,
    pub slots: Vec<Slot>,
    pub blocks: Vec<Block>,
    /// number of nesting levels of dual types above the float
    pub levels: usize,
}

impl Layout {
    pub fn alg(&self) -> Arc<Alg> {
        Alg::new(&self.groups)
    }
    /// is slot i present under the presence pattern
    pub fn slot_present(&self, i: usize, pres: &[bool]) -> bool {
        let mut b = self.slots[i].block;
        while let Some(k) = b {
            if !pres[k] {
                return false;
            }
            b = self.blocks[k].parent;
        }
        true
    }
    /// embed flat values into the algebra (absent parts are zero)
    pub fn embed(&self, alg: &Arc<Alg>, vals: &[f64], pres: &[bool]) -> Jet {
        let mut j = Jet::zero(alg);
        for (i, s) in self.slots.iter().enumerate() {
            if !self.slot_present(i, pres) {
                continue;
            }
            let v = vals[i];
            if v == 0.0 && i != 0 {
                continue;
            }
            for m in &s.monos {
                let k = alg.index(m);
                j.c[k] = R::exact(v);
            }
        }
        j
    }
    pub fn max_order(&self) -> usize {
        self.groups.len()
    }
}

/// token of the textual rendering
#[derive(Clone, Debug, PartialEq)]
pub enum Tok {
    Num(f64),
    Sym(String),
}

/// flat, canonical representation of a value
#[derive(Clone, Debug, Default, PartialEq)]
pub struct Flat {
    pub vals: Vec<f64>,
    pub pres: Vec<bool>,
}

pub struct Reader<'a> {
    pub vals: &'a [f64],
    pub pres: &'a [bool],
    pub iv: usize,
    pub ip: usize,
}
impl<'a> Reader<'a> {
    pub fn new(f: &'a Flat) -> Self {
        Reader { vals: &f.vals, pres: &f.pres, iv: 0, ip: 0 }
    }
    fn val(&mut self) -> f64 {
        let v = self.vals[self.iv];
        self.iv += 1;
        v
    }
    fn pres(&mut self) -> bool {
        let p = self.pres[self.ip];
        self.ip += 1;
        p
    }
}

fn mono_mul(a: &Mono, b: &Mono) -> Mono {
    a.iter().zip(b).map(|(x, y)| if *x != 0 { *x } else { *y }).collect()
}
fn prefix_times(prefix: &[Mono], gens: &[Mono]) -> Vec<Mono> {
    let mut out = Vec::new();
    for p in prefix {
        for g in gens {
            out.push(mono_mul(p, g));
        }
    }
    out
}
fn gen(ng: usize, picks: &[(usize, usize)]) -> Mono {
    let mut m = vec![0u8; ng];
    for &(g, d) in picks {
        m[g] = d as u8;
    }
    m
}

pub struct Ctx<'a> {
    pub dims: &'a [usize],
    pub ng: usize,
}

/// A library type known to the harness.
pub trait Ty: Clone + 'static {
    type F: Flt;
    fn tname(dims: &[usize]) -> String;
    fn groups(dims: &[usize], out: &mut Vec<usize>);
    /// (number of slots, number of optional block instances)
    fn counts(dims: &[usize]) -> (usize, usize);
    fn slots(cx: &Ctx, level: usize, prefix: &[Mono], pname: &str, order: u8, parent: Option<usize>, lay: &mut Layout);
    fn build(dims: &[usize], r: &mut Reader) -> Self;
    fn dump(&self, dims: &[usize], out: &mut Flat);
    /// the documented textual rendering as a token sequence: every present part in the fixed
    /// order (matrices row by row, as printed), each part / block followed by its symbol
    fn display_tokens(&self, dims: &[usize], out: &mut Vec<Tok>);

    /// nesting levels above the float
    fn levels() -> usize;
    fn layout(dims: &[usize]) -> Layout {
        let mut lay = Layout::default();
        lay.levels = Self::levels();
        Self::groups(dims, &mut lay.groups);
        let ng = lay.groups.len();
        let cx = Ctx { dims, ng };
        Self::slots(&cx, 0, &[vec![0u8; ng]], "", 0, None, &mut lay);
        lay
    }
    fn from_flat(dims: &[usize], f: &Flat) -> Self {
        let mut r = Reader::new(f);
        let x = Self::build(dims, &mut r);
        debug_assert_eq!(r.iv, f.vals.len());
        debug_assert_eq!(r.ip, f.pres.len());
        x
    }
    fn to_flat(&self, dims: &[usize]) -> Flat {
        let mut f = Flat::default();
        self.dump(dims, &mut f);
        f
    }
}

macro_rules! impl_leaf {
    ($f:ty) => {
        impl Ty for $f {
            type F = $f;
            fn tname(_: &[usize]) -> String {
                <$f as Flt>::NAME.to_string()
            }
            fn groups(_: &[usize], _: &mut Vec<usize>) {}
            fn levels() -> usize {
                0
            }
            fn counts(_: &[usize]) -> (usize, usize) {
                (1, 0)
            }
            fn slots(_cx: &Ctx, _level: usize, prefix: &[Mono], pname: &str, order: u8, parent: Option<usize>, lay: &mut Layout) {
                lay.slots.push(Slot {
                    monos: prefix.to_vec(),
                    block: parent,
                    name: if pname.is_empty() { "re".to_string() } else { pname.to_string() },
                    order,
                });
            }
            fn build(_: &[usize], r: &mut Reader) -> Self {
                <$f as Flt>::from64(r.val())
            }
            fn dump(&self, _: &[usize], out: &mut Flat) {
                out.vals.push(self.to64());
            }
            fn display_tokens(&self, _: &[usize], out: &mut Vec<Tok>) {
                out.push(Tok::Num(self.to64()));
            }
        }
    };
}
impl_leaf!(f64);
impl_leaf!(f32);

fn sub(p: &str, s: &str) -> String {
    if p.is_empty() {
        s.to_string()
    } else {
        format!("{p}.{s}")
    }
}

/// scalar types: list of (field, generators as list of monomials given by picks relative to `level`, order)
macro_rules! impl_scalar {
    ($ty:ident, $name:literal, $ngroups:expr, [$(($field:ident, [$([$($g:expr),*]),*], $ord:expr, $sym:literal)),*]) => {
        impl<T: Ty + DualNum<<T as Ty>::F>> Ty for $ty<T, <T as Ty>::F> {
            type F = T::F;
            fn tname(dims: &[usize]) -> String {
                format!("{}<{}>", $name, T::tname(dims))
            }
            fn levels() -> usize {
                1 + T::levels()
            }
            fn groups(dims: &[usize], out: &mut Vec<usize>) {
                for _ in 0..$ngroups { out.push(1); }
                T::groups(dims, out);
            }
            fn counts(dims: &[usize]) -> (usize, usize) {
                let (s, b) = T::counts(dims);
                let n = 1 $(+ { let _ = stringify!($field); 1 })*;
                (s * n, b * n)
            }
            fn slots(cx: &Ctx, level: usize, prefix: &[Mono], pname: &str, order: u8, parent: Option<usize>, lay: &mut Layout) {
                T::slots(cx, level + $ngroups, prefix, &sub(pname, "re"), order, parent, lay);
                $(
                    let gens: Vec<Mono> = vec![$(gen(cx.ng, &[$((level + $g, 1)),*])),*];
                    let pf = prefix_times(prefix, &gens);
                    T::slots(cx, level + $ngroups, &pf, &sub(pname, stringify!($field)), order + $ord, parent, lay);
                )*
            }
            fn build(dims: &[usize], r: &mut Reader) -> Self {
                let re = T::build(dims, r);
                $(let $field = T::build(dims, r);)*
                $ty::new(re, $($field),*)
            }
            fn dump(&self, dims: &[usize], out: &mut Flat) {
                self.re.dump(dims, out);
                $(self.$field.dump(dims, out);)*
            }
            fn display_tokens(&self, dims: &[usize], out: &mut Vec<Tok>) {
                self.re.display_tokens(dims, out);
                $(
                    self.$field.display_tokens(dims, out);
                    out.push(Tok::Sym($sym.to_string()));
                )*
            }
        }
    };
}

impl_scalar!(Dual, "Dual", 1, [(eps, [[0]], 1, "ε")]);
impl_scalar!(Dual2, "Dual2", 2, [(v1, [[0], [1]], 1, "ε1"), (v2, [[0, 1]], 2, "ε1²")]);
impl_scalar!(Dual3, "Dual3", 3, [(v1, [[0], [1], [2]], 1, "v1"), (v2, [[0, 1], [0, 2], [1, 2]], 2, "v2"), (v3, [[0, 1, 2]], 3, "v3")]);
impl_scalar!(HyperDual, "HyperDual", 2, [(eps1, [[0]], 1, "ε1"), (eps2, [[1]], 1, "ε2"), (eps1eps2, [[0, 1]], 2, "ε1ε2")]);
impl_scalar!(
    HyperHyperDual,
    "HyperHyperDual",
    3,
    [
        (eps1, [[0]], 1, "ε1"),
        (eps2, [[1]], 1, "ε2"),
        (eps3, [[2]], 1, "ε3"),
        (eps1eps2, [[0, 1]], 2, "ε1ε2"),
        (eps1eps3, [[0, 2]], 2, "ε1ε3"),
        (eps2eps3, [[1, 2]], 2, "ε2ε3"),
        (eps1eps2eps3, [[0, 1, 2]], 3, "ε1ε2ε3")
    ]
);

/// dimension helper: static dims report themselves, dynamic ones take the next run-time dim
fn dim_of<D: Dim>(dims: &[usize], k: usize) -> usize {
    D::try_to_usize().unwrap_or_else(|| dims[k])
}
fn dname<D: Dim>(dims: &[usize], k: usize) -> String {
    match D::try_to_usize() {
        Some(n) => format!("{n}"),
        None => format!("Dyn{}", dims[k]),
    }
}

/// read an optional block of `rows x cols` inner values (column-major)
fn build_block<T: Ty + DualNum<T::F>, Rw: Dim, Cl: Dim>(
    dims: &[usize],
    r: &mut Reader,
    rows: usize,
    cols: usize,
) -> Derivative<T, T::F, Rw, Cl>
where
    DefaultAllocator: Allocator<Rw, Cl>,
{
    let present = r.pres();
    let (ns, nb) = T::counts(dims);
    if !present {
        r.iv += ns * rows * cols;
        r.ip += nb * rows * cols;
        return Derivative::none();
    }
    let mut v = Vec::with_capacity(rows * cols);
    for _ in 0..rows * cols {
        v.push(T::build(dims, r));
    }
    let m = OMatrix::<T, Rw, Cl>::from_fn_generic(Rw::from_usize(rows), Cl::from_usize(cols), |i, j| v[j * rows + i].clone());
    Derivative::some(m)
}

fn dump_block<T: Ty + DualNum<T::F>, Rw: Dim, Cl: Dim>(
    d: &Derivative<T, T::F, Rw, Cl>,
    dims: &[usize],
    out: &mut Flat,
    rows: usize,
    cols: usize,
) where
    DefaultAllocator: Allocator<Rw, Cl>,
{
    let present = *d != Derivative::none();
    out.pres.push(present);
    let (ns, nb) = T::counts(dims);
    if !present {
        out.vals.extend(std::iter::repeat(0.0).take(ns * rows * cols));
        out.pres.extend(std::iter::repeat(false).take(nb * rows * cols));
        return;
    }
    let m = d.clone().unwrap_generic(Rw::from_usize(rows), Cl::from_usize(cols));
    assert_eq!(m.shape(), (rows, cols), "derivative block has unexpected shape");
    for j in 0..cols {
        for i in 0..rows {
            m[(i, j)].dump(dims, out);
        }
    }
}

/// tokens of an optional block: nothing when absent; elements in printed order (row by row), then the symbol
fn block_tokens<T: Ty + DualNum<T::F>, Rw: Dim, Cl: Dim>(d: &Derivative<T, T::F, Rw, Cl>, dims: &[usize], out: &mut Vec<Tok>, rows: usize, cols: usize, sym: &str)
where
    DefaultAllocator: Allocator<Rw, Cl>,
{
    if *d == Derivative::none() {
        return;
    }
    let m = d.clone().unwrap_generic(Rw::from_usize(rows), Cl::from_usize(cols));
    for i in 0..rows {
        for j in 0..cols {
            m[(i, j)].display_tokens(dims, out);
        }
    }
    out.push(Tok::Sym(sym.to_string()));
}

impl<T: Ty + DualNum<<T as Ty>::F>, D: Dim> Ty for DualVec<T, <T as Ty>::F, D>
where
    DefaultAllocator: Allocator<D> + Allocator<U1, D> + Allocator<D, D>,
{
    type F = T::F;
    fn levels() -> usize {
        1 + T::levels()
    }
    fn tname(dims: &[usize]) -> String {
        format!("DualVec<{},{}>", T::tname(dims), dname::<D>(dims, 0))
    }
    fn groups(dims: &[usize], out: &mut Vec<usize>) {
        out.push(dim_of::<D>(dims, 0));
        T::groups(dims, out);
    }
    fn counts(dims: &[usize]) -> (usize, usize) {
        let n = dim_of::<D>(dims, 0);
        let (s, b) = T::counts(dims);
        (s * (1 + n), b * (1 + n) + 1)
    }
    fn slots(cx: &Ctx, level: usize, prefix: &[Mono], pname: &str, order: u8, parent: Option<usize>, lay: &mut Layout) {
        let n = dim_of::<D>(cx.dims, 0);
        T::slots(cx, level + 1, prefix, &sub(pname, "re"), order, parent, lay);
        let b = lay.blocks.len();
        lay.blocks.push(Block { parent, name: sub(pname, "eps") });
        for i in 0..n {
            let pf = prefix_times(prefix, &[gen(cx.ng, &[(level, i + 1)])]);
            T::slots(cx, level + 1, &pf, &sub(pname, &format!("eps[{i}]")), order + 1, Some(b), lay);
        }
    }
    fn build(dims: &[usize], r: &mut Reader) -> Self {
        let n = dim_of::<D>(dims, 0);
        let re = T::build(dims, r);
        let eps = build_block::<T, D, U1>(dims, r, n, 1);
        DualVec::new(re, eps)
    }
    fn dump(&self, dims: &[usize], out: &mut Flat) {
        let n = dim_of::<D>(dims, 0);
        self.re.dump(dims, out);
        dump_block(&self.eps, dims, out, n, 1);
    }
    fn display_tokens(&self, dims: &[usize], out: &mut Vec<Tok>) {
        let n = dim_of::<D>(dims, 0);
        self.re.display_tokens(dims, out);
        block_tokens(&self.eps, dims, out, n, 1, "ε");
    }
}

impl<T: Ty + DualNum<<T as Ty>::F>, D: Dim> Ty for Dual2Vec<T, <T as Ty>::F, D>
where
    DefaultAllocator: Allocator<D> + Allocator<U1, D> + Allocator<D, D>,
{
    type F = T::F;
    fn levels() -> usize {
        1 + T::levels()
    }
    fn tname(dims: &[usize]) -> String {
        format!("Dual2Vec<{},{}>", T::tname(dims), dname::<D>(dims, 0))
    }
    fn groups(dims: &[usize], out: &mut Vec<usize>) {
        let n = dim_of::<D>(dims, 0);
        out.push(n);
        out.push(n);
        T::groups(dims, out);
    }
    fn counts(dims: &[usize]) -> (usize, usize) {
        let n = dim_of::<D>(dims, 0);
        let (s, b) = T::counts(dims);
        (s * (1 + n + n * n), b * (1 + n + n * n) + 2)
    }
    fn slots(cx: &Ctx, level: usize, prefix: &[Mono], pname: &str, order: u8, parent: Option<usize>, lay: &mut Layout) {
        let n = dim_of::<D>(cx.dims, 0);
        T::slots(cx, level + 2, prefix, &sub(pname, "re"), order, parent, lay);
        let b1 = lay.blocks.len();
        lay.blocks.push(Block { parent, name: sub(pname, "v1") });
        for j in 0..n {
            let pf = prefix_times(prefix, &[gen(cx.ng, &[(level, j + 1)]), gen(cx.ng, &[(level + 1, j + 1)])]);
            T::slots(cx, level + 2, &pf, &sub(pname, &format!("v1[{j}]")), order + 1, Some(b1), lay);
        }
        let b2 = lay.blocks.len();
        lay.blocks.push(Block { parent, name: sub(pname, "v2") });
        for j in 0..n {
            for i in 0..n {
                let pf = prefix_times(prefix, &[gen(cx.ng, &[(level, i + 1), (level + 1, j + 1)])]);
                T::slots(cx, level + 2, &pf, &sub(pname, &format!("v2[{i},{j}]")), order + 2, Some(b2), lay);
            }
        }
    }
    fn build(dims: &[usize], r: &mut Reader) -> Self {
        let n = dim_of::<D>(dims, 0);
        let re = T::build(dims, r);
        let v1 = build_block::<T, U1, D>(dims, r, 1, n);
        let v2 = build_block::<T, D, D>(dims, r, n, n);
        Dual2Vec::new(re, v1, v2)
    }
    fn dump(&self, dims: &[usize], out: &mut Flat) {
        let n = dim_of::<D>(dims, 0);
        self.re.dump(dims, out);
        dump_block(&self.v1, dims, out, 1, n);
        dump_block(&self.v2, dims, out, n, n);
    }
    fn display_tokens(&self, dims: &[usize], out: &mut Vec<Tok>) {
        let n = dim_of::<D>(dims, 0);
        self.re.display_tokens(dims, out);
        block_tokens(&self.v1, dims, out, 1, n, "ε1");
        block_tokens(&self.v2, dims, out, n, n, "ε1²");
    }
}

impl<T: Ty + DualNum<<T as Ty>::F>, M: Dim, N: Dim> Ty for HyperDualVec<T, <T as Ty>::F, M, N>
where
    DefaultAllocator: Allocator<M> + Allocator<M, N> + Allocator<U1, N>,
{
    type F = T::F;
    fn levels() -> usize {
        1 + T::levels()
    }
    fn tname(dims: &[usize]) -> String {
        format!("HyperDualVec<{},{},{}>", T::tname(dims), dname::<M>(dims, 0), dname::<N>(dims, 1))
    }
    fn groups(dims: &[usize], out: &mut Vec<usize>) {
        out.push(dim_of::<M>(dims, 0));
        out.push(dim_of::<N>(dims, 1));
        T::groups(dims, out);
    }
    fn counts(dims: &[usize]) -> (usize, usize) {
        let (m, n) = (dim_of::<M>(dims, 0), dim_of::<N>(dims, 1));
        let (s, b) = T::counts(dims);
        let k = 1 + m + n + m * n;
        (s * k, b * k + 3)
    }
    fn slots(cx: &Ctx, level: usize, prefix: &[Mono], pname: &str, order: u8, parent: Option<usize>, lay: &mut Layout) {
        let (m, n) = (dim_of::<M>(cx.dims, 0), dim_of::<N>(cx.dims, 1));
        T::slots(cx, level + 2, prefix, &sub(pname, "re"), order, parent, lay);
        let b1 = lay.blocks.len();
        lay.blocks.push(Block { parent, name: sub(pname, "eps1") });
        for i in 0..m {
            let pf = prefix_times(prefix, &[gen(cx.ng, &[(level, i + 1)])]);
            T::slots(cx, level + 2, &pf, &sub(pname, &format!("eps1[{i}]")), order + 1, Some(b1), lay);
        }
        let b2 = lay.blocks.len();
        lay.blocks.push(Block { parent, name: sub(pname, "eps2") });
        for j in 0..n {
            let pf = prefix_times(prefix, &[gen(cx.ng, &[(level + 1, j + 1)])]);
            T::slots(cx, level + 2, &pf, &sub(pname, &format!("eps2[{j}]")), order + 1, Some(b2), lay);
        }
        let b3 = lay.blocks.len();
        lay.blocks.push(Block { parent, name: sub(pname, "eps1eps2") });
        for j in 0..n {
            for i in 0..m {
                let pf = prefix_times(prefix, &[gen(cx.ng, &[(level, i + 1), (level + 1, j + 1)])]);
                T::slots(cx, level + 2, &pf, &sub(pname, &format!("eps1eps2[{i},{j}]")), order + 2, Some(b3), lay);
            }
        }
    }
    fn build(dims: &[usize], r: &mut Reader) -> Self {
        let (m, n) = (dim_of::<M>(dims, 0), dim_of::<N>(dims, 1));
        let re = T::build(dims, r);
        let e1 = build_block::<T, M, U1>(dims, r, m, 1);
        let e2 = build_block::<T, U1, N>(dims, r, 1, n);
        let e12 = build_block::<T, M, N>(dims, r, m, n);
        HyperDualVec::new(re, e1, e2, e12)
    }
    fn dump(&self, dims: &[usize], out: &mut Flat) {
        let (m, n) = (dim_of::<M>(dims, 0), dim_of::<N>(dims, 1));
        self.re.dump(dims, out);
        dump_block(&self.eps1, dims, out, m, 1);
        dump_block(&self.eps2, dims, out, 1, n);
        dump_block(&self.eps1eps2, dims, out, m, n);
    }
    fn display_tokens(&self, dims: &[usize], out: &mut Vec<Tok>) {
        let (m, n) = (dim_of::<M>(dims, 0), dim_of::<N>(dims, 1));
        self.re.display_tokens(dims, out);
        block_tokens(&self.eps1, dims, out, m, 1, "ε1");
        block_tokens(&self.eps2, dims, out, 1, n, "ε2");
        block_tokens(&self.eps1eps2, dims, out, m, n, "ε1ε2");
    }
}
