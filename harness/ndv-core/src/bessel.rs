//! C14 (cylindrical Bessel J0, J1, J2) and C15 (spherical Bessel j0, j1, j2).

use crate::common::*;
use crate::engine::*;
use crate::prog::apply_un;
use crate::registry::{dispatch, dispatch_bessel, TyVisitor, TyVisitorCopy, TYPES};
use crate::types::{Flat, Flt, Ty};
use ndv_oracle::taylor::{taylor, Fun};
use ndv_oracle::R;
use num_dual::{BesselDual, DualNum};
use proptest::prelude::*;
use serde::{Deserialize, Serialize};
use serde_json::json;

/// tolerance schedule of C14 in multiples of u*e: value 8 (e is already 4 units: ~16 u (1+|J|)),
/// parts of total order k: 2^(3+3k) (e of a derivative coefficient carries the factor 4 of its leaves,
/// so this is 2^(5+3k) u * sum|terms|; DESIGN.md planned 2^(6+3k), the measured worst ratios
/// 3 / 14 / 210 / 3200 for k = 1..4 leave >= 10x head-room)
pub fn c14_factor(order: u8) -> f64 {
    if order == 0 {
        8.0
    } else {
        2f64.powi(3 + 3 * order as i32)
    }
}

#[derive(Clone, Debug, Serialize, Deserialize)]
pub struct Case {
    pub ty: usize,
    pub dims: (u8, u8),
    pub n: u8,
    pub s: u8,
    pub u: f64,
    pub off: i8,
    pub parts: Vec<f64>,
    pub pres: Vec<bool>,
    pub zero: Vec<bool>,
}

fn nudge(x: f64, k: i8) -> f64 {
    let mut v = x;
    for _ in 0..k.unsigned_abs() {
        let b = v.to_bits();
        v = if (k > 0) == (v > 0.0) { f64::from_bits(b + 1) } else { f64::from_bits(b - 1) };
    }
    v
}

/// argument of the cylindrical functions, |x| <= 60
pub fn c14_arg(s: u8, u: f64, off: i8) -> f64 {
    let neg = s & 1 == 1;
    let x = match (s >> 1) % 14 {
        12 | 13 => {
            // multiples of pi/4 (the phase of the asymptotic expansion is x - pi/4, x - 3 pi/4): +-3 floats
            // and +-1e-9 around k pi/4, k = 1..76
            let k = 1.0 + (u * 76.0).floor().min(75.0);
            let z = k * std::f64::consts::FRAC_PI_4;
            if (s >> 1) % 14 == 12 {
                nudge(z, off)
            } else {
                z + off as f64 * 1.0e-9 / 3.0
            }
        }
        0 => 0.0,
        1 => 10f64.powf(-300.0 + 294.0 * u),
        2 => nudge(1e-5, off),
        3 => nudge(5.0, off),
        4 => nudge(1.0, off),
        5 => 1e-5 + (1.0 - 1e-5) * u,
        6 => 1.0 + 4.0 * u,
        7 => 5.0 + 55.0 * u,
        8 => {
            // zeros of J0 / J1 / J2
            let z = [2.404825557695773, 5.520078110286311, 8.653727912911013, 3.8317059702075125, 7.015586669815619, 5.135622301840683, 8.417244140399864];
            nudge(z[(u * 7.0) as usize % 7], off)
        }
        9 => 10f64.powf(-6.0 + 5.0 * u),
        10 => 5.0 + 5.0 * u * u,
        _ => 60.0 * u,
    };
    if neg {
        -x
    } else {
        x
    }
}

/// positive zeros below 50 of sph_j0 (k pi), sph_j1 (tan x = x) and sph_j2 (tan x = 3x/(3-x^2)), by bisection
fn sph_zeros() -> &'static Vec<f64> {
    static Z: std::sync::OnceLock<Vec<f64>> = std::sync::OnceLock::new();
    Z.get_or_init(|| {
        let g: [fn(f64) -> f64; 3] = [|x| x.sin(), |x| x.sin() - x * x.cos(), |x| (3.0 - x * x) * x.sin() - 3.0 * x * x.cos()];
        let mut z = vec![];
        for f in g {
            // sign changes on a fine grid, then bisection
            let mut a = 1.0f64;
            while a < 50.0 {
                let b = a + 0.05;
                if (f(a) > 0.0) != (f(b) > 0.0) {
                    let (mut lo, mut hi) = (a, b);
                    for _ in 0..80 {
                        let mid = 0.5 * (lo + hi);
                        if (f(mid) > 0.0) == (f(lo) > 0.0) {
                            lo = mid;
                        } else {
                            hi = mid;
                        }
                    }
                    z.push(0.5 * (lo + hi));
                }
                a = b;
            }
        }
        z
    })
}

/// argument of the spherical functions, |x| <= 50
pub fn c15_arg(s: u8, u: f64, off: i8, is32: bool) -> f64 {
    let eps = if is32 { f32::EPSILON as f64 } else { f64::EPSILON };
    let neg = s & 1 == 1;
    let tiny_lo = if is32 { -30.0 } else { -300.0 };
    let x = match (s >> 1) % 13 {
        12 => {
            // +-3 floats around a multiple of pi/4 (zeros and extrema of sin / cos: where a term of the closed
            // forms is pure rounding noise in the real part but not in the derivative parts)
            let k = 1.0 + (u * 63.0).floor().min(62.0);
            let z0 = k * std::f64::consts::FRAC_PI_4;
            if is32 {
                let mut v = z0 as f32;
                for _ in 0..off.unsigned_abs() {
                    v = f32::from_bits(if off > 0 { v.to_bits() + 1 } else { v.to_bits() - 1 });
                }
                v as f64
            } else {
                nudge(z0, off)
            }
        }
        10 | 11 => {
            // +-3 floats around a zero of j0 / j1 / j2 (a cancellation 'fix' or a switch keyed to the
            // function value lives in a window of ~1e-9 around them)
            let z = sph_zeros();
            let z0 = z[((u * z.len() as f64) as usize).min(z.len() - 1)];
            if is32 {
                let mut v = z0 as f32;
                for _ in 0..off.unsigned_abs() {
                    v = f32::from_bits(if off > 0 { v.to_bits() + 1 } else { v.to_bits() - 1 });
                }
                v as f64
            } else {
                nudge(z0, off)
            }
        }
        0 => 0.0,
        1 => 10f64.powf(tiny_lo + (eps.log10() - tiny_lo) * u),
        2 => {
            if is32 {
                ((eps as f32) * (1.0 + off as f32 * f32::EPSILON)) as f64
            } else {
                nudge(eps, off)
            }
        }
        3 => 10f64.powf(-12.0 + 12.0 * u).min(0.9999),
        4 => {
            if is32 {
                (1.0f32 + off as f32 * f32::EPSILON) as f64
            } else {
                nudge(1.0, off)
            }
        }
        5 => 1.0 + 9.0 * u,
        6 => 10.0 + 40.0 * u,
        7 => u,
        8 => 10f64.powf(-4.0 + 4.0 * u),
        _ => 50.0 * u,
    };
    if neg {
        -x
    } else {
        x
    }
}

fn negate_parts(f: &Flat) -> Flat {
    let mut g = f.clone();
    for v in g.vals.iter_mut() {
        *v = -*v;
    }
    g
}

pub struct C14;
pub struct C15;

struct V14<'a> {
    case: &'a Case,
    st: &'a mut Stats,
}
impl<'a> TyVisitorCopy for V14<'a> {
    type Out = Verdict;
    fn visit<T>(self, dims: &[usize]) -> Verdict
    where
        T: Ty + DualNum<<T as Ty>::F> + Copy + BesselDual,
    {
        let case = self.case;
        let st = self.st;
        let lay = T::layout(dims);
        let alg = lay.alg();
        ndv_oracle::ring::set_unit(<T::F as Flt>::U);
        let x0 = c14_arg(case.s, case.u, case.off);
        let fx = make_flat::<T::F>(&lay, x0, &case.parts, &case.pres, &case.zero);
        let x = T::from_flat(dims, &fx);
        let xj = lay.embed(&alg, &fx.vals, &fx.pres);
        let call = |x: T| match case.n % 3 {
            0 => x.bessel_j0(),
            1 => x.bessel_j1(),
            _ => x.bessel_j2(),
        };
        let f = [Fun::BesselJ0, Fun::BesselJ1, Fun::BesselJ2][case.n as usize % 3];
        let lib = call(x);
        let rf = match xj.apply(f) {
            Some(r) if r.all_finite() => r,
            _ => return Verdict::Trivial("reference out of domain"),
        };
        let lf = lib.to_flat(dims);
        // value: near machine ABSOLUTE accuracy, 16 u (1 + |J|); derivative parts: the schedule
        let c = compare_with::<T::F>(&lay, &alg, &lf, &rf, &|o| if o == 0 { 1e30 } else { c14_factor(o) }, false, f.name());
        if let Some((sig, why)) = c.fail {
            return Verdict::Fail { sig: format!("C14/{sig}"), why: format!("{} on {} at x={:e}: {}; operand {}", f.name(), T::tname(dims), x0, why, flat_json(&lay, &fx)) };
        }
        let jv = rf.c[0].v;
        let vtol = 16.0 * <T::F as Flt>::U * (1.0 + jv.abs());
        st.ratio(&format!("{}/value_abs_error_over_u", f.name()), (lf.vals[0] - jv).abs() / <T::F as Flt>::U);
        if !((lf.vals[0] - jv).abs() <= vtol) {
            return Verdict::Fail {
                sig: format!("C14/{}/value/order0", f.name()),
                why: format!("{} on {} at x={:e}: value {:e}, reference {:e}, |diff| {:e} > 16 u (1+|J|)", f.name(), T::tname(dims), x0, lf.vals[0], jv, (lf.vals[0] - jv).abs()),
            };
        }
        // parity: g(-x0 + N) = +-g(x0 - N)
        let fm = negate_parts(&fx);
        let libm = call(T::from_flat(dims, &fm)).to_flat(dims);
        let sign = if case.n % 3 == 1 { -1.0 } else { 1.0 };
        for (i, s) in lay.slots.iter().enumerate() {
            let r = rf.c[alg.index(&s.monos[0])];
            let tol = 2.0 * c14_factor(s.order) * <T::F as Flt>::U * r.e + <T::F as Flt>::FLOOR;
            let d = (lf.vals[i] - sign * libm.vals[i]).abs();
            if !(d <= tol) {
                return Verdict::Fail {
                    sig: format!("C14/{}/parity/order{}", f.name(), s.order),
                    why: format!("{} on {}: parity violated in part {}: f(x) = {:e}, f(-x) with negated parts = {:e}; operand {}", f.name(), T::tname(dims), s.name, lf.vals[i], libm.vals[i], flat_json(&lay, &fx)),
                };
            }
        }
        let ax = x0.abs();
        st.class(&format!(
            "{}:{}{}",
            f.name(),
            if ax == 0.0 { "zero" } else if ax < 1e-5 { "small(<1e-5)" } else if ax <= 1.0 { "(1e-5,1]" } else if ax <= 5.0 { "rational(<=5)" } else { "asymptotic(>5)" },
            if x0 < 0.0 { ",x<0" } else { "" }
        ));
        for o in 1..=lay.max_order().min(7) {
            // worst ratio per order (calibration record)
            st.ratio(&format!("{}/order{}{}", f.name(), o, if ax <= 5.0 { "" } else { "/asymptotic" }), c.worst_by_order[o]);
        }
        let nontrivial = if lay.max_order() >= 2 { nonzero_parts(&lay, &fx, 2) >= 1 || nonzero_parts(&lay, &fx, 1) >= 1 } else { nonzero_parts(&lay, &fx, 1) >= 1 };
        if nontrivial && st.wants_sample() {
            st.sample(|| json!({"type": T::tname(dims), "function": f.name(), "operand": flat_json(&lay, &fx), "library": flat_json(&lay, &lf), "reference": jet_json(&lay, &alg, &rf)}));
        }
        Verdict::Pass { nontrivial }
    }
}

fn bessel_types() -> Vec<usize> {
    (0..TYPES.len()).filter(|t| !TYPES[*t].is32 && TYPES[*t].copy).collect()
}

fn case_strategy(types: Vec<usize>) -> BoxedStrategy<Case> {
    let nt = types.len();
    ((0..nt, dims_strategy(), 0u8..3), (any::<u8>(), 0.0f64..1.0, -3i8..=3), (parts_pool(), presence()))
        .prop_map(move |((ti, dims, n), (s, u, off), (parts, (pres, zero)))| Case { ty: types[ti], dims, n, s, u, off, parts, pres, zero })
        .boxed()
}

fn malformed(c: &Case) -> bool {
    c.ty >= TYPES.len() || c.parts.is_empty() || c.pres.is_empty() || c.zero.is_empty() || !c.u.is_finite() || c.u < 0.0 || c.u >= 1.0 || c.off.abs() > 3
}

impl Property for C14 {
    type Case = Case;
    const ID: &'static str = "C14";
    fn strategy(_tier: Tier) -> BoxedStrategy<Case> {
        case_strategy(bessel_types())
    }
    fn check(case: &Case, st: &mut Stats) -> Verdict {
        if malformed(case) || TYPES[case.ty].is32 || !TYPES[case.ty].copy {
            return Verdict::Trivial("malformed case");
        }
        let dims = [case.dims.0 as usize % 7, case.dims.1 as usize % 7];
        st.class(&format!("type:{}", TYPES[case.ty].name));
        dispatch_bessel(case.ty, &dims, V14 { case, st })
    }
    fn cases(tier: Tier) -> u64 {
        match tier {
            Tier::Quick => 200_000,
            Tier::Thorough => 10_000_000,
        }
    }
    fn rule() -> String {
        "generated: (f64 Copy type incl. static vectors and nested types up to 4th order, n in 0..2, x in [-60,60] from strata {0, tiny 1e-300..1e-6, +-3 floats around the switch points 1e-5, 1, 5, (1e-5,1], (1,5], (5,60], +-3 floats around zeros of J0/J1/J2, +-3 floats and +-1e-9 around the multiples k pi/4 (k <= 76) of the asymptotic phase, both signs}, arbitrary parts, presence patterns). Oracle: J_0..J_(n+order) by power series (|x|<2) / Miller backward recurrence, derivatives by the iterated relation 2 J_n' = J_(n-1) - J_(n+1), composed in the reference algebra (validated against mpmath in `ndv selftest`). Tolerance: value ~32 u (1+|J|), parts of total order k: 2^(5+3k) u * sum|terms| (the library differentiates rational approximations). Parity: f(-x) with negated parts must equal +-f(x) part by part. Non-trivial: a derivative part of the operand is non-zero; class counters show every branch and sign.".into()
    }
    fn assumptions() -> Vec<String> {
        vec![
            "perturbations of an approximation coefficient below the per-order schedule 2^(6+3k) u are invisible".into(),
            "Miller recurrence / power series reference accurate to a few u (absolute for |x| >= 2, relative below)".into(),
        ]
    }
}

struct V15<'a> {
    case: &'a Case,
    st: &'a mut Stats,
}
impl<'a> TyVisitor for V15<'a> {
    type Out = Verdict;
    fn visit<T>(self, dims: &[usize]) -> Verdict
    where
        T: Ty + DualNum<<T as Ty>::F>,
    {
        let case = self.case;
        let st = self.st;
        let lay = T::layout(dims);
        let alg = lay.alg();
        let is32 = <T::F as Flt>::IS32;
        ndv_oracle::ring::set_unit(<T::F as Flt>::U);
        let x0 = c15_arg(case.s, case.u, case.off, is32);
        let fx = make_flat::<T::F>(&lay, x0, &case.parts, &case.pres, &case.zero);
        let x0 = fx.vals[0];
        let x = T::from_flat(dims, &fx);
        let xj = lay.embed(&alg, &fx.vals, &fx.pres);
        let f = [Fun::SphJ0, Fun::SphJ1, Fun::SphJ2][case.n as usize % 3];
        let lib = apply_un::<T, T::F>(f, &x);
        let rf = match xj.apply(f) {
            Some(r) if r.all_finite() => r,
            _ => return Verdict::Trivial("reference out of domain"),
        };
        let lf = lib.to_flat(dims);
        let c = compare::<T::F>(&lay, &alg, &lf, &rf, K, false, f.name());
        if let Some((sig, why)) = c.fail {
            return Verdict::Fail { sig: format!("C15/{sig}"), why: format!("{} on {} at x={:e}: {}; operand {}", f.name(), T::tname(dims), x0, why, flat_json(&lay, &fx)) };
        }
        // real part of the dual result vs the plain-float implementation at the same argument
        let plain = apply_un::<T::F, T::F>(f, &<T::F as Flt>::from64(x0)).to64();
        let r0 = rf.c[0];
        let tol = 2.0 * K * <T::F as Flt>::U * r0.e + <T::F as Flt>::FLOOR;
        if !((lf.vals[0] - plain).abs() <= tol) {
            return Verdict::Fail {
                sig: format!("C15/{}/real-part-vs-plain-float", f.name()),
                why: format!("{} on {} at x={:e}: real part {:e} but the plain float implementation returns {:e}", f.name(), T::tname(dims), x0, lf.vals[0], plain),
            };
        }
        if !((plain - r0.v).abs() <= K * <T::F as Flt>::U * r0.e + <T::F as Flt>::FLOOR) {
            return Verdict::Fail {
                sig: format!("C15/{}/plain-float", f.name()),
                why: format!("{}({:e}) on plain {} = {:e}, reference {:e}", f.name(), x0, <T::F as Flt>::NAME, plain, r0.v),
            };
        }
        // parity
        let fm = negate_parts(&fx);
        let libm = apply_un::<T, T::F>(f, &T::from_flat(dims, &fm)).to_flat(dims);
        let sign = if case.n % 3 == 1 { -1.0 } else { 1.0 };
        for (i, s) in lay.slots.iter().enumerate() {
            let r = rf.c[alg.index(&s.monos[0])];
            let tol = 2.0 * K * <T::F as Flt>::U * r.e + <T::F as Flt>::FLOOR;
            let d = (lf.vals[i] - sign * libm.vals[i]).abs();
            if !(d <= tol) {
                return Verdict::Fail {
                    sig: format!("C15/{}/parity/order{}", f.name(), s.order),
                    why: format!("{} on {}: parity violated in part {}: f(x) = {:e}, f(-x) with negated parts = {:e}; operand {}", f.name(), T::tname(dims), s.name, lf.vals[i], libm.vals[i], flat_json(&lay, &fx)),
                };
            }
        }
        let ax = x0.abs();
        let eps = if is32 { f32::EPSILON as f64 } else { f64::EPSILON };
        st.class(&format!(
            "{}:{}{}",
            f.name(),
            if ax == 0.0 { "zero" } else if ax < eps { "below-eps" } else if ax < 1.0 { "small(<1)" } else if ax <= 10.0 { "[1,10]" } else { ">10" },
            if x0 < 0.0 { ",x<0" } else { "" }
        ));
        st.ratio(&format!("{}{}", f.name(), if is32 { "/f32" } else { "" }), c.worst);
        let hi = if lay.max_order() >= 2 { nonzero_parts(&lay, &fx, 2) >= 1 } else { nonzero_parts(&lay, &fx, 1) >= 1 };
        let nontrivial = hi && !(1.0..=10.0).contains(&ax) && !c.ill;
        if nontrivial && st.wants_sample() {
            st.sample(|| json!({"type": T::tname(dims), "function": f.name(), "operand": flat_json(&lay, &fx), "library": flat_json(&lay, &lf), "reference": jet_json(&lay, &alg, &rf), "plain_float": plain}));
        }
        Verdict::Pass { nontrivial }
    }
}

impl Property for C15 {
    type Case = Case;
    const ID: &'static str = "C15";
    fn strategy(_tier: Tier) -> BoxedStrategy<Case> {
        case_strategy((0..TYPES.len()).collect())
    }
    fn check(case: &Case, st: &mut Stats) -> Verdict {
        if malformed(case) {
            return Verdict::Trivial("malformed case");
        }
        let dims = [case.dims.0 as usize % 7, case.dims.1 as usize % 7];
        st.class(&format!("type:{}", TYPES[case.ty].name));
        dispatch(case.ty, &dims, V15 { case, st })
    }
    /// plain floats over a deterministic sweep (the generic interface instances for f32 and f64)
    fn exhaustive(_tier: Tier, st: &mut Stats) -> Vec<(Case, String, String)> {
        let mut fails = vec![];
        let mut n_pts = 0u64;
        for n in 0..3usize {
            let f = [Fun::SphJ0, Fun::SphJ1, Fun::SphJ2][n];
            for s in 0..26u8 {
                for iu in 0..400 {
                    let u = iu as f64 / 400.0;
                    for is32 in [false, true] {
                        let x = c15_arg(s, u, (iu % 7) as i8 - 3, is32);
                        let (plain, x, uu, floor) = if is32 {
                            let xf = x as f32;
                            (apply_un::<f32, f32>(f, &xf) as f64, xf as f64, <f32 as Flt>::U, <f32 as Flt>::FLOOR)
                        } else {
                            (apply_un::<f64, f64>(f, &x), x, <f64 as Flt>::U, <f64 as Flt>::FLOOR)
                        };
                        ndv_oracle::ring::set_unit(uu);
                        let t = match taylor(f, R::exact(x), 0) {
                            Some(t) => t,
                            None => continue,
                        };
                        n_pts += 1;
                        st.evaluations += 1;
                        let tol = K * uu * t[0].e + floor;
                        if (plain - t[0].v).abs() <= tol {
                            st.passes += 1;
                        } else if fails.len() < 4 {
                            let case = Case { ty: if is32 { 5 } else { 0 }, dims: (0, 0), n: n as u8, s, u, off: (iu % 7) as i8 - 3, parts: vec![0.0], pres: vec![true], zero: vec![false] };
                            fails.push((case, format!("C15/{}/plain-float", f.name()), format!("[sweep] {}({:e}) on plain {} = {:e}, reference {:e} (tolerance {:e})", f.name(), x, if is32 { "f32" } else { "f64" }, plain, t[0].v, tol)));
                        }
                    }
                }
            }
        }
        st.count("plain_float_sweep_points", n_pts);
        fails
    }
    fn cases(tier: Tier) -> u64 {
        match tier {
            Tier::Quick => 200_000,
            Tier::Thorough => 10_000_000,
        }
    }
    fn rule() -> String {
        "generated: (any registered type over f32/f64, n in 0..2, x in [-50,50] from strata {0, below machine epsilon (down to 1e-300), +-3 floats around eps and around 1 (the switch), small non-zero 1e-12..1, [1,10], (10,50], +-3 floats around the 45 zeros of j0, j1, j2 below 50, +-3 floats around the multiples k pi/4 (k <= 63), both signs}, arbitrary parts, presence patterns) plus a deterministic sweep of the plain f32/f64 instances. Oracle: Taylor series re-expanded at x (|x|<1) / closed forms in power-series arithmetic (|x|>=1) composed in the reference algebra; tolerance 32 u e where e is the rounding bound of that well-conditioned evaluation (the 1/x^k amplification of the closed forms for small x is NOT granted). Also: real part of the dual result vs the plain-float implementation at the same argument, parity (j0, j2 even; j1 odd) with negated parts. Non-trivial: a part of order >= 2 non-zero (order-1 types: first-order part), |x| outside the trivially safe band [1,10], not ill-conditioned.".into()
    }
    fn assumptions() -> Vec<String> {
        vec!["reference validated against mpmath (ndv selftest)".into()]
    }
}
