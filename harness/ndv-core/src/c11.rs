//! C11 - dual numbers satisfy nalgebra's real-field contract.

use crate::c01::real_part;
use crate::common::*;
use crate::engine::*;
use crate::prog::{apply_un, UNARY};
use crate::registry::{dispatch_field, TyVisitorField, TYPES};
use crate::types::{Flat, Flt, Layout, Ty};
use nalgebra::{ComplexField, RealField, SimdValue};
use ndv_oracle::taylor::Fun;
use ndv_oracle::{Jet, R};
use num_dual::DualNum;
use num_traits::{One, Zero};
use proptest::prelude::*;
use serde::{Deserialize, Serialize};
use serde_json::json;

pub const NMETH: u8 = 48;

#[derive(Clone, Debug, Serialize, Deserialize)]
pub struct Case {
    pub ty: usize,
    pub dims: (u8, u8),
    pub meth: u8,
    pub s: u8,
    pub u: f64,
    pub rb: f64,
    pub rc: f64,
    pub n: i32,
    pub near: bool,
    pub a: Vec<f64>,
    pub b: Vec<f64>,
    pub c: Vec<f64>,
    pub pres_a: Vec<bool>,
    pub pres_b: Vec<bool>,
    pub zero: Vec<bool>,
}

pub fn field_types() -> Vec<usize> {
    (0..TYPES.len()).filter(|t| TYPES[*t].field).collect()
}

pub struct C11;
struct V<'a> {
    case: &'a Case,
    st: &'a mut Stats,
}

fn same_bits(a: f64, b: f64) -> bool {
    a.to_bits() == b.to_bits() || (a.is_nan() && b.is_nan())
}

struct Cx<'a> {
    lay: &'a Layout,
    dims: &'a [usize],
    name: String,
    ctx: String,
}

impl<'a> Cx<'a> {
    fn bits<T: Ty>(&self, got: &T, want: &T, what: &str) -> Result<(), Verdict> {
        let (g, w) = (got.to_flat(self.dims), want.to_flat(self.dims));
        for i in 0..g.vals.len() {
            if !same_bits(g.vals[i], w.vals[i]) && !(g.vals[i] == 0.0 && w.vals[i] == 0.0) {
                return Err(Verdict::Fail {
                    sig: format!("C11/{}/{}", self.name, what),
                    why: format!("{}: part {} is {:e} but {} gives {:e}; {}", self.name, self.lay.slots[i].name, g.vals[i], what, w.vals[i], self.ctx),
                });
            }
        }
        Ok(())
    }
    fn reference<T: Ty>(&self, got: &T, rf: &Option<Jet>, st: &mut Stats) -> Result<bool, Verdict> {
        let rf = match rf {
            Some(r) if r.all_finite() => r,
            _ => return Ok(false),
        };
        let alg = rf.alg.clone();
        let c = compare::<T::F>(self.lay, &alg, &got.to_flat(self.dims), rf, K, false, &self.name);
        if let Some((sig, why)) = c.fail {
            return Err(Verdict::Fail { sig: format!("C11/{sig}"), why: format!("{}; {}", why, self.ctx) });
        }
        st.ratio(&self.name, c.worst);
        Ok(true)
    }
    /// real part against the same method on plain floats
    fn float<F: Flt>(&self, got_re: f64, want: f64, extra_tol: f64) -> Result<(), Verdict> {
        let tol = 12.0 * F::U * want.abs() + extra_tol + F::FLOOR;
        if !((got_re - want).abs() <= tol) && !same_bits(got_re, want) {
            return Err(Verdict::Fail {
                sig: format!("C11/{}/real-part-vs-float", self.name),
                why: format!("{}: real part {:e} but the method on the plain float gives {:e}; {}", self.name, got_re, want, self.ctx),
            });
        }
        Ok(())
    }
}

fn cf_unary<X: ComplexField>(f: Fun, x: X) -> X {
    match f {
        Fun::Recip => x.recip(),
        Fun::Sqrt => x.sqrt(),
        Fun::Cbrt => x.cbrt(),
        Fun::Exp => x.exp(),
        Fun::Exp2 => x.exp2(),
        Fun::ExpM1 => x.exp_m1(),
        Fun::Ln => x.ln(),
        Fun::Log2 => x.log2(),
        Fun::Log10 => x.log10(),
        Fun::Ln1p => x.ln_1p(),
        Fun::Sin => x.sin(),
        Fun::Cos => x.cos(),
        Fun::Tan => x.tan(),
        Fun::Asin => x.asin(),
        Fun::Acos => x.acos(),
        Fun::Atan => x.atan(),
        Fun::Sinh => x.sinh(),
        Fun::Cosh => x.cosh(),
        Fun::Tanh => x.tanh(),
        Fun::Asinh => x.asinh(),
        Fun::Acosh => x.acosh(),
        Fun::Atanh => x.atanh(),
        _ => x,
    }
}

macro_rules! constants {
    ($T:ty, $F:ty, $cx:expr, $dims:expr, $lay:expr, $st:expr, [$($name:ident),*]) => {{
        $(
            let f = <$T as RealField>::$name().to_flat($dims);
            let want: f64 = Flt::to64(<$F as RealField>::$name());
            if f.vals[0].to_bits() != want.to_bits() || f.vals[1..].iter().any(|v| *v != 0.0) {
                return Err(Verdict::Fail {
                    sig: format!("C11/const/{}", stringify!($name)),
                    why: format!("{}::{}() = {} but the float constant is {:e} (and all derivative parts must be zero)", $cx.name, stringify!($name), flat_json($lay, &f), want),
                });
            }
            $st.count("constants_checked", 1);
        )*
    }};
}

impl<'a> V<'a> {
    fn run<T>(self, dims: &[usize]) -> Result<bool, Verdict>
    where
        T: Ty + DualNum<<T as Ty>::F> + PartialOrd + RealField + SimdValue<Element = T, SimdBool = bool>,
        <T as Ty>::F: RealField,
    {
        let case = self.case;
        let st = self.st;
        let lay = T::layout(dims);
        let alg = lay.alg();
        let is32 = <T::F as Flt>::IS32;
        ndv_oracle::ring::set_unit(<T::F as Flt>::U);
        let meth = case.meth % NMETH;
        let fl = <T::F as Flt>::from64;
        // operands
        let ra = if meth < 22 { real_part(meth as usize, is32, case.s, case.u) } else { real_part(0, is32, case.s, case.u).clamp(-50.0, 50.0) };
        let mut rb = case.rb;
        if case.near {
            // equal or adjacent real parts for the selection methods
            rb = if case.n & 1 == 0 { ra } else { f64::from_bits(ra.to_bits() + 1) };
        }
        // selection methods: one case in eight has a signed zero as the real part of the second operand
        // (copysign must follow the sign BIT, min / max / clamp the float comparison), one in sixteen
        // also as the real part of the first
        let mut ra = ra;
        if (42..=44).contains(&meth) && !case.near {
            match (case.n as i64).rem_euclid(16) {
                12 => rb = 0.0,
                13 => rb = -0.0,
                14 => {
                    rb = -0.0;
                    if meth != 44 {
                        ra = 0.0;
                    }
                }
                15 => {
                    rb = 0.0;
                    if meth != 44 {
                        ra = -0.0;
                    }
                }
                _ => {}
            }
            if rb == 0.0 {
                st.class("selection method with a signed-zero operand");
            }
        }
        // two-argument smooth functions: one case in eight has one real part exactly zero (the axes)
        if (meth == 25 || meth == 30) && !case.near {
            match (case.n as i64).rem_euclid(16) {
                10 => ra = 0.0,
                11 => rb = 0.0,
                _ => {}
            }
        }
        let fa = make_flat::<T::F>(&lay, ra, &case.a, &case.pres_a, &case.zero);
        let fb = make_flat::<T::F>(&lay, rb, &case.b, &case.pres_b, &[false]);
        let fc = make_flat::<T::F>(&lay, case.rc, &case.c, &case.pres_b, &[false]);
        let (ra, rb, rc) = (fa.vals[0], fb.vals[0], fc.vals[0]);
        let a = T::from_flat(dims, &fa);
        let b = T::from_flat(dims, &fb);
        let c = T::from_flat(dims, &fc);
        let (aj, bj, cj) = (lay.embed(&alg, &fa.vals, &fa.pres), lay.embed(&alg, &fb.vals, &fb.pres), lay.embed(&alg, &fc.vals, &fc.pres));
        let (xa, xb, xc) = (fl(ra), fl(rb), fl(rc));
        let mut cx = Cx { lay: &lay, dims, name: String::new(), ctx: format!("type {}, a = {}, b = {}, c = {}", T::tname(dims), flat_json(&lay, &fa), flat_json(&lay, &fb), flat_json(&lay, &fc)) };
        let re = |t: &T| t.re().to64();
        let mut nontrivial = nonzero_parts(&lay, &fa, 1) >= 1 && (1..fa.vals.len()).any(|i| fa.vals[i] != fb.vals[i]);
        match meth {
            0..=21 => {
                let f = UNARY[meth as usize];
                cx.name = f.name().to_string();
                let got = cf_unary::<T>(f, a.clone());
                cx.bits(&got, &apply_un::<T, T::F>(f, &a), "the generic dual operation")?;
                cx.reference(&got, &aj.apply(f), st)?;
                cx.float::<T::F>(re(&got), cf_unary::<T::F>(f, xa).to64(), 0.0)?;
            }
            22 => {
                cx.name = "sin_cos".into();
                let got = ComplexField::sin_cos(a.clone());
                let want = DualNum::sin_cos(&a);
                cx.bits(&got.0, &want.0, "the generic dual operation")?;
                cx.bits(&got.1, &want.1, "the generic dual operation")?;
                let fw = ComplexField::sin_cos(xa);
                cx.float::<T::F>(re(&got.0), fw.0.to64(), 0.0)?;
                cx.float::<T::F>(re(&got.1), fw.1.to64(), 0.0)?;
            }
            23 => {
                cx.name = "sinh_cosh".into();
                let x = T::from_flat(dims, &make_flat::<T::F>(&lay, ra.clamp(-20.0, 20.0), &case.a, &case.pres_a, &case.zero));
                let got = ComplexField::sinh_cosh(x.clone());
                cx.bits(&got.0, &DualNum::sinh(&x), "the generic dual operation")?;
                cx.bits(&got.1, &DualNum::cosh(&x), "the generic dual operation")?;
            }
            24 => {
                cx.name = "powi".into();
                let n = case.n.rem_euclid(13) - 6;
                let xr = if n < 0 && ra.abs() < 1e-2 { ra + 0.5 } else { ra };
                let fx = make_flat::<T::F>(&lay, xr, &case.a, &case.pres_a, &case.zero);
                let x = T::from_flat(dims, &fx);
                let got = ComplexField::powi(x.clone(), n);
                cx.bits(&got, &DualNum::powi(&x, n), "the generic dual operation")?;
                cx.float::<T::F>(re(&got), ComplexField::powi(fl(fx.vals[0]), n).to64(), 16.0 * <T::F as Flt>::U * re(&got).abs())?;
            }
            25 => {
                cx.name = "atan2".into();
                if ra.abs().max(rb.abs()) < 1e-3 || (ra == 0.0 && rb <= 0.0) {
                    return Ok(false);
                }
                let got = RealField::atan2(a.clone(), b.clone());
                cx.bits(&got, &DualNum::atan2(&a, b.clone()), "the generic dual operation")?;
                cx.reference(&got, &aj.atan2(&bj), st)?;
                cx.float::<T::F>(re(&got), RealField::atan2(xa, xb).to64(), 0.0)?;
            }
            26 => {
                cx.name = "mul_add".into();
                let got = ComplexField::mul_add(a.clone(), b.clone(), c.clone());
                cx.bits(&got, &DualNum::mul_add(&a, b.clone(), c.clone()), "the generic dual operation")?;
                cx.reference(&got, &Some(aj.mul(&bj).add(&cj)), st)?;
                let w = ComplexField::mul_add(xa, xb, xc).to64();
                cx.float::<T::F>(re(&got), w, 4.0 * <T::F as Flt>::U * ((ra * rb).abs() + rc.abs()))?;
            }
            27 | 28 | 29 => {
                // positive base a, dual second operand b
                let xr = 0.05 + ra.abs().min(20.0);
                let fx = make_flat::<T::F>(&lay, xr, &case.a, &case.pres_a, &case.zero);
                let x = T::from_flat(dims, &fx);
                let xj = lay.embed(&alg, &fx.vals, &fx.pres);
                if meth == 27 {
                    cx.name = "log(dual base)".into();
                    let br = 1.5 + rb.abs();
                    let fb2 = make_flat::<T::F>(&lay, br, &case.b, &case.pres_b, &[false]);
                    let base = T::from_flat(dims, &fb2);
                    let basej = lay.embed(&alg, &fb2.vals, &fb2.pres);
                    let got = ComplexField::log(x.clone(), base.clone());
                    cx.bits(&got, &(DualNum::ln(&x) / DualNum::ln(&base)), "ln(x) / ln(base)")?;
                    let rf = xj.apply(Fun::Ln).and_then(|l| basej.apply(Fun::Ln).and_then(|lb| l.div(&lb)));
                    cx.reference(&got, &rf, st)?;
                    let w = ComplexField::log(fl(fx.vals[0]), fl(fb2.vals[0])).to64();
                    cx.float::<T::F>(re(&got), w, 8.0 * <T::F as Flt>::U * w.abs())?;
                } else {
                    cx.name = if meth == 28 { "powf(dual exponent)".into() } else { "powc".into() };
                    let er = rb.clamp(-4.0, 4.0);
                    let fe = make_flat::<T::F>(&lay, er, &case.b, &case.pres_b, &[false]);
                    let e = T::from_flat(dims, &fe);
                    let ej = lay.embed(&alg, &fe.vals, &fe.pres);
                    let got = if meth == 28 { ComplexField::powf(x.clone(), e.clone()) } else { ComplexField::powc(x.clone(), e.clone()) };
                    cx.bits(&got, &DualNum::powd(&x, e.clone()), "powd")?;
                    let rf = xj.powd(&ej);
                    cx.reference(&got, &rf, st)?;
                    let w = ComplexField::powf(fl(fx.vals[0]), fl(fe.vals[0])).to64();
                    let e0 = rf.as_ref().map(|r| r.c[0].e).unwrap_or(0.0);
                    cx.float::<T::F>(re(&got), w, K * <T::F as Flt>::U * e0)?;
                }
            }
            30 => {
                cx.name = "hypot".into();
                if ra.abs().max(rb.abs()) < 1e-2 {
                    return Ok(false);
                }
                if ra == 0.0 || rb == 0.0 {
                    st.class("hypot on an axis");
                }
                let got = ComplexField::hypot(a.clone(), b.clone());
                let rf = aj.mul(&aj).add(&bj.mul(&bj)).apply(Fun::Sqrt);
                cx.reference(&got, &rf, st)?;
                cx.float::<T::F>(re(&got), ComplexField::hypot(xa, xb).to64(), 4.0 * <T::F as Flt>::U * re(&got).abs())?;
            }
            31 | 32 => {
                cx.name = if meth == 31 { "scale".into() } else { "unscale".into() };
                let rb2 = if rb.abs() < 1e-2 { rb + 0.5 } else { rb };
                let fb2 = make_flat::<T::F>(&lay, rb2, &case.b, &case.pres_b, &[false]);
                let f = T::from_flat(dims, &fb2);
                let fj = lay.embed(&alg, &fb2.vals, &fb2.pres);
                let (got, want, rf) = if meth == 31 { (ComplexField::scale(a.clone(), f.clone()), a.clone() * f.clone(), Some(aj.mul(&fj))) } else { (ComplexField::unscale(a.clone(), f.clone()), a.clone() / f.clone(), aj.div(&fj)) };
                cx.bits(&got, &want, "the dual product / quotient")?;
                cx.reference(&got, &rf, st)?;
            }
            33 => {
                cx.name = "modulus_squared".into();
                let got = ComplexField::modulus_squared(a.clone());
                cx.bits(&got, &(a.clone() * a.clone()), "a * a")?;
                cx.reference(&got, &Some(aj.mul(&aj)), st)?;
                cx.float::<T::F>(re(&got), ComplexField::modulus_squared(xa).to64(), 0.0)?;
            }
            34 | 35 => {
                // signum = a / |a|, to_exp = (|a|, a/|a|): derivative parts vanish up to rounding
                if ra.abs() < 1e-3 {
                    return Ok(false);
                }
                cx.name = if meth == 34 { "signum".into() } else { "to_exp".into() };
                let sg = if meth == 34 { ComplexField::signum(a.clone()) } else { ComplexField::to_exp(a.clone()).1 };
                let absj = if ra > 0.0 { aj.clone() } else { aj.neg() };
                cx.reference(&sg, &aj.div(&absj), st)?;
                cx.float::<T::F>(re(&sg), ComplexField::signum(xa).to64(), 0.0)?;
                if meth == 35 {
                    let m = ComplexField::to_exp(a.clone()).0;
                    cx.bits(&m, &num_traits::Signed::abs(&a), "abs")?;
                }
            }
            36 | 37 => {
                cx.name = if meth == 36 { "to_polar".into() } else { "argument".into() };
                let arg = if meth == 36 { ComplexField::to_polar(a.clone()).1 } else { ComplexField::argument(a.clone()) };
                let f = arg.to_flat(dims);
                let want = ComplexField::argument(xa).to64();
                if !same_bits(f.vals[0], want) || f.vals[1..].iter().any(|v| *v != 0.0) {
                    return Err(Verdict::Fail { sig: format!("C11/argument/{}", if ra < 0.0 { "negative" } else { "non-negative" }), why: format!("argument of {} is {} but the float method gives {:e} (a constant)", flat_json(&lay, &fa), flat_json(&lay, &f), want) });
                }
                if meth == 36 {
                    cx.bits(&ComplexField::to_polar(a.clone()).0, &num_traits::Signed::abs(&a), "abs")?;
                }
            }
            38 => {
                cx.name = "try_sqrt".into();
                if ra == 0.0 {
                    return Ok(false);
                }
                let got = ComplexField::try_sqrt(a.clone());
                let want = ComplexField::try_sqrt(xa);
                match (&got, &want) {
                    (Some(g), Some(w)) => {
                        cx.bits(g, &DualNum::sqrt(&a), "sqrt")?;
                        cx.float::<T::F>(re(g), w.to64(), 0.0)?;
                    }
                    (None, None) => {}
                    _ => return Err(Verdict::Fail { sig: "C11/try_sqrt/domain".into(), why: format!("try_sqrt({}) is {} but the float method gives {:?}", flat_json(&lay, &fa), if got.is_some() { "Some" } else { "None" }, want.map(|w| w.to64())) }),
                }
            }
            39 => {
                cx.name = "is_finite".into();
                let vals = [ra, f64::INFINITY, f64::NEG_INFINITY, f64::NAN];
                let v = vals[(case.n.rem_euclid(4)) as usize];
                let mut fx = make_flat::<T::F>(&lay, v, &case.a, &case.pres_a, &case.zero);
                // half of the cases: some derivative parts are themselves inf / NaN (e.g. the result of
                // sqrt at 0) - the predicates still only look at the real part
                if case.n.rem_euclid(8) >= 4 {
                    let nonfinite = [f64::INFINITY, f64::NAN, f64::NEG_INFINITY];
                    for i in 1..fx.vals.len() {
                        if (i + case.n.rem_euclid(3) as usize) % 2 == 0 {
                            fx.vals[i] = nonfinite[(i + case.n.rem_euclid(5) as usize) % 3];
                        }
                    }
                    st.class("predicates on a number with non-finite derivative parts");
                }
                let x = T::from_flat(dims, &fx);
                if ComplexField::is_finite(&x) != v.is_finite() {
                    return Err(Verdict::Fail { sig: "C11/is_finite".into(), why: format!("is_finite of a number with real part {v} is {}", ComplexField::is_finite(&x)) });
                }
                if RealField::is_sign_positive(&x) != v.is_sign_positive() || RealField::is_sign_negative(&x) != v.is_sign_negative() {
                    return Err(Verdict::Fail { sig: "C11/is_sign".into(), why: format!("is_sign_positive/negative of a number with real part {v} disagree with the float") });
                }
            }
            40 => {
                // abs / modulus / norm1: the operand or its negation with its own parts
                cx.name = "abs/modulus/norm1".into();
                if ra == 0.0 {
                    return Ok(false);
                }
                let want = if ra > 0.0 { a.clone() } else { -a.clone() };
                cx.bits(&ComplexField::abs(a.clone()), &want, "the operand (or its negation) with its own parts")?;
                cx.bits(&ComplexField::modulus(a.clone()), &want, "the operand (or its negation) with its own parts")?;
                cx.bits(&ComplexField::norm1(a.clone()), &want, "the operand (or its negation) with its own parts")?;
            }
            41 => {
                cx.name = "conjugate/real/imaginary/from_real".into();
                cx.bits(&ComplexField::conjugate(a.clone()), &a, "the operand")?;
                cx.bits(&ComplexField::real(a.clone()), &a, "the operand")?;
                cx.bits(&<T as ComplexField>::from_real(a.clone()), &a, "the operand")?;
                cx.bits(&ComplexField::imaginary(a.clone()), &T::zero(), "zero")?;
            }
            42 => {
                cx.name = "min/max".into();
                let mx = RealField::max(a.clone(), b.clone());
                let mn = RealField::min(a.clone(), b.clone());
                cx.bits(&mx, if xb > xa { &b } else { &a }, "the operand selected by the float rule, with its own parts")?;
                cx.bits(&mn, if xb < xa { &b } else { &a }, "the operand selected by the float rule, with its own parts")?;
                nontrivial = nontrivial && (1..fa.vals.len()).any(|i| fa.vals[i] != fb.vals[i]);
            }
            43 => {
                cx.name = "clamp".into();
                // clamp(b, lo = a, hi = c) with lo <= hi
                let (lo, hi, xlo, xhi) = if xa <= xc { (&a, &c, xa, xc) } else { (&c, &a, xc, xa) };
                let got = RealField::clamp(b.clone(), lo.clone(), hi.clone());
                let want = if xb < xlo { lo } else if xb > xhi { hi } else { &b };
                cx.bits(&got, want, "the operand selected by the float rule, with its own parts")?;
            }
            44 => {
                cx.name = "copysign".into();
                if ra == 0.0 {
                    return Ok(false);
                }
                let got = RealField::copysign(a.clone(), b.clone());
                let pos = if ra > 0.0 { a.clone() } else { -a.clone() };
                let want = if rb.is_sign_positive() { pos } else { -pos };
                cx.bits(&got, &want, "+-|a| with a's own parts")?;
                cx.float::<T::F>(re(&got), RealField::copysign(xa, xb).to64(), 0.0)?;
            }
            45 => {
                cx.name = "SimdValue".into();
                cx.bits(&<T as SimdValue>::splat(a.clone()), &a, "the value itself")?;
                cx.bits(&SimdValue::extract(&a, 0), &a, "the value itself")?;
                let mut r = a.clone();
                SimdValue::replace(&mut r, 0, b.clone());
                cx.bits(&r, &b, "the replacement value")?;
                cx.bits(&SimdValue::select(a.clone(), true, b.clone()), &a, "self")?;
                cx.bits(&SimdValue::select(a.clone(), false, b.clone()), &b, "other")?;
                // the unchecked variants (unsafe fns of the trait) behave identically on the single lane
                let eu = unsafe { SimdValue::extract_unchecked(&a, 0) };
                cx.bits(&eu, &a, "the value itself (extract_unchecked)")?;
                let mut ru = a.clone();
                unsafe { SimdValue::replace_unchecked(&mut ru, 0, b.clone()) };
                cx.bits(&ru, &b, "the replacement value (replace_unchecked)")?;
                if <T as SimdValue>::LANES != 1 {
                    return Err(Verdict::Fail { sig: "C11/SimdValue/lanes".into(), why: format!("LANES = {}", <T as SimdValue>::LANES) });
                }
                nontrivial = (0..lay.blocks.len()).any(|k| fa.pres[k] != fb.pres[k]) || nontrivial;
            }
            46 => {
                cx.name = "sqrt/exp forwarders on second operand".into();
                // zero / one of the field
                cx.bits(&<T as Zero>::zero(), &T::from(fl(0.0)), "the lifted float")?;
                cx.bits(&<T as One>::one(), &T::from(fl(1.0)), "the lifted float")?;
            }
            _ => {
                cx.name = "constants".into();
                constants!(T, T::F, cx, dims, &lay, st, [pi, two_pi, frac_pi_2, frac_pi_3, frac_pi_4, frac_pi_6, frac_pi_8, frac_1_pi, frac_2_pi, frac_2_sqrt_pi, e, log2_e, log10_e, ln_2, ln_10]);
                for (got, want) in [(<T as RealField>::min_value(), <T::F as RealField>::min_value()), (<T as RealField>::max_value(), <T::F as RealField>::max_value())] {
                    match (got, want) {
                        (Some(g), Some(w)) => {
                            let f = g.to_flat(dims);
                            if !same_bits(f.vals[0], w.to64()) || f.vals[1..].iter().any(|v| *v != 0.0) {
                                return Err(Verdict::Fail { sig: "C11/const/min_max_value".into(), why: format!("min/max_value = {} but the float gives {:e}", flat_json(&lay, &f), w.to64()) });
                            }
                        }
                        (None, None) => {}
                        _ => return Err(Verdict::Fail { sig: "C11/const/min_max_value".into(), why: "min/max_value: Some/None differs from the float".into() }),
                    }
                }
                nontrivial = true;
            }
        }
        st.class(&format!("method:{}", cx.name));
        st.class(&format!("type:{}", TYPES[case.ty].name));
        if nontrivial && st.wants_sample() {
            st.sample(|| json!({"type": T::tname(dims), "method": cx.name, "a": flat_json(&lay, &fa), "b": flat_json(&lay, &fb)}));
        }
        let _ = (R::ZERO, Flat::default());
        Ok(nontrivial)
    }
}

impl<'a> TyVisitorField for V<'a> {
    type Out = Verdict;
    fn visit<T>(self, dims: &[usize]) -> Verdict
    where
        T: Ty + DualNum<<T as Ty>::F> + PartialOrd + RealField + SimdValue<Element = T, SimdBool = bool>,
        <T as Ty>::F: RealField,
    {
        match self.run::<T>(dims) {
            Ok(nontrivial) => Verdict::Pass { nontrivial },
            Err(v) => v,
        }
    }
}

impl Property for C11 {
    type Case = Case;
    const ID: &'static str = "C11";
    fn strategy(_tier: Tier) -> BoxedStrategy<Case> {
        let types = field_types();
        let nt = types.len();
        (
            (0..nt, dims_strategy(), 0..NMETH),
            (any::<u8>(), 0.0f64..1.0, -4.0f64..4.0, -4.0f64..4.0, any::<i32>(), proptest::bool::weighted(0.3)),
            (parts_pool(), parts_pool(), parts_pool()),
            (presence(), proptest::collection::vec(proptest::bool::weighted(0.75), 8)),
        )
            .prop_map(move |((ti, dims, meth), (s, u, rb, rc, n, near), (a, b, c), ((pres_a, zero), pres_b))| Case { ty: types[ti], dims, meth, s, u, rb, rc, n, near, a, b, c, pres_a, pres_b, zero })
            .boxed()
    }
    fn check(case: &Case, st: &mut Stats) -> Verdict {
        if case.ty >= TYPES.len() || !TYPES[case.ty].field || case.a.is_empty() || case.b.is_empty() || case.c.is_empty() || case.pres_a.is_empty() || case.pres_b.is_empty() || case.zero.is_empty() || ![case.u, case.rb, case.rc].iter().all(|x| x.is_finite()) || case.rb.abs() > 1e3 || case.rc.abs() > 1e3 || !(0.0..1.0).contains(&case.u) {
            return Verdict::Trivial("malformed case");
        }
        let dims = [case.dims.0 as usize % 7, case.dims.1 as usize % 7];
        dispatch_field(case.ty, &dims, V { case, st })
    }
    /// every constant on every field-compatible type (finite enumeration)
    fn exhaustive(_tier: Tier, st: &mut Stats) -> Vec<(Case, String, String)> {
        let mut fails = vec![];
        for ty in field_types() {
            let case = Case { ty, dims: (2, 2), meth: NMETH - 1, s: 0, u: 0.5, rb: 1.0, rc: 1.0, n: 0, near: false, a: vec![1.0], b: vec![1.0], c: vec![1.0], pres_a: vec![true], pres_b: vec![true], zero: vec![false] };
            let mut tmp = Stats::new();
            let v = Self::check(&case, &mut tmp);
            st.evaluations += 1;
            st.count("constants_checked", tmp.extra.get("constants_checked").copied().unwrap_or(0));
            match v {
                Verdict::Fail { sig, why } => fails.push((case, sig, format!("[constants enumeration] {why}"))),
                _ => st.passes += 1,
            }
        }
        fails
    }
    fn cases(tier: Tier) -> u64 {
        match tier {
            Tier::Quick => 200_000,
            Tier::Thorough => 5_000_000,
        }
    }
    fn rule() -> String {
        "generated: (one of the 26 field-compatible instantiations Dual/DualVec/Dual2/Dual2Vec over f32/f64, static N=1..6 and dynamic; one of 48 method groups of ComplexField/RealField/SimdValue that do not panic by design; operands in the method's domain with arbitrary parts and presence patterns; for selection methods 30% equal or adjacent real parts and 1 in 4 of the rest a signed zero +0.0 / -0.0 as real part). Oracles: (a) the 15 RealField constants and min/max_value have the float constant's bits and zero parts (also enumerated exhaustively on all types); (b) forwarders equal the generic dual operation bit for bit, composed methods (log with dual base, powf/powc with dual exponent, hypot, scale, unscale, modulus_squared, mul_add, signum, to_exp) equal the reference algebra within 32 u e, and every real part equals the same method on the plain float (6 ulp, conditioning-scaled for powers); (c) min, max, clamp, copysign, abs, modulus, norm1 return the operand the float rule selects with its own parts (or their negation) bit for bit; argument/to_polar are the float constants; (d) single-lane SimdValue: splat, extract, replace, select round-trip every presence pattern. Non-trivial: operands with distinct non-zero parts.".into()
    }
    fn assumptions() -> Vec<String> {
        vec!["floor, ceil, round, trunc, fract panic by design and are excluded".into()]
    }
}
