//! C16 - serialization round-trips every part of a dual number (feature serde).

use crate::c18::float_from_bits;
use crate::common::*;
use crate::engine::*;
use crate::registry::TYPES;
use crate::types::{Flat, Flt, Ty};
use num_dual::*;
use proptest::prelude::*;
use serde::de::DeserializeOwned;
use serde::{Deserialize, Serialize};
use serde_json::{json, Map, Value};

#[derive(Clone, Debug, Serialize, Deserialize)]
pub struct Case {
    pub ty: usize,
    pub bits: Vec<u64>,
    /// permutation material for the key order / the pair of fields to swap
    pub perm: Vec<u8>,
}

pub struct C16;

/// scalar (also nested) types that implement Serialize / Deserialize
pub const SERDE_TYPES: [usize; 20] = [0, 1, 2, 3, 4, 5, 6, 7, 8, 9, 42, 43, 44, 45, 46, 47, 48, 49, 54, 57];

type D64 = Dual64;

fn dispatch_serde(case: &Case, st: &mut Stats) -> Verdict {
    match case.ty {
        0 => run::<Dual64>(case, st),
        1 => run::<Dual2_64>(case, st),
        2 => run::<Dual3_64>(case, st),
        3 => run::<HyperDual64>(case, st),
        4 => run::<HyperHyperDual64>(case, st),
        5 => run::<Dual32>(case, st),
        6 => run::<Dual2_32>(case, st),
        7 => run::<Dual3_32>(case, st),
        8 => run::<HyperDual32>(case, st),
        9 => run::<HyperHyperDual32>(case, st),
        42 => run::<Dual<D64, f64>>(case, st),
        43 => run::<Dual<Dual<D64, f64>, f64>>(case, st),
        44 => run::<Dual2<D64, f64>>(case, st),
        45 => run::<Dual<Dual2_64, f64>>(case, st),
        46 => run::<Dual3<D64, f64>>(case, st),
        47 => run::<HyperDual<D64, f64>>(case, st),
        48 => run::<Dual2<Dual2_64, f64>>(case, st),
        49 => run::<HyperDual<HyperDual64, f64>>(case, st),
        54 => run::<Dual<Dual32, f32>>(case, st),
        57 => run::<HyperHyperDual<D64, f64>>(case, st),
        _ => Verdict::Trivial("type without serde support"),
    }
}

/// the documented structure: nested objects following the field path, leaves are numbers
fn expected_value(names: &[String], vals: &[f64], is32: bool) -> Value {
    let mut root = Map::new();
    for (n, v) in names.iter().zip(vals) {
        let path: Vec<&str> = n.split('.').collect();
        let mut cur = &mut root;
        for p in &path[..path.len() - 1] {
            cur = cur.entry(p.to_string()).or_insert_with(|| Value::Object(Map::new())).as_object_mut().unwrap();
        }
        let num = if is32 { serde_json::to_value(*v as f32).unwrap() } else { serde_json::to_value(*v).unwrap() };
        cur.insert(path[path.len() - 1].to_string(), num);
    }
    Value::Object(root)
}

/// JSON text of an object with the keys of every level in a permuted order
fn permuted_text(v: &Value, perm: &[u8], depth: usize) -> String {
    match v {
        Value::Object(m) => {
            let mut keys: Vec<&String> = m.keys().collect();
            // Fisher-Yates with the case's material
            for i in (1..keys.len()).rev() {
                let j = perm[(i + depth * 7) % perm.len()] as usize % (i + 1);
                keys.swap(i, j);
            }
            let body: Vec<String> = keys.iter().map(|k| format!("{}:{}", serde_json::to_string(k).unwrap(), permuted_text(&m[*k], perm, depth + 1))).collect();
            format!("{{{}}}", body.join(","))
        }
        other => serde_json::to_string(other).unwrap(),
    }
}

fn run<T>(case: &Case, st: &mut Stats) -> Verdict
where
    T: Ty + DualNum<<T as Ty>::F> + Serialize + DeserializeOwned,
{
    let dims = [0usize, 0];
    let lay = T::layout(&dims);
    let is32 = <T::F as Flt>::IS32;
    let vals: Vec<f64> = (0..lay.slots.len()).map(|i| round_to::<T::F>(float_from_bits(case.bits[i % case.bits.len()].rotate_left((i / case.bits.len()) as u32 * 5), is32))).collect();
    let flat = Flat { vals: vals.clone(), pres: vec![] };
    let x = T::from_flat(&dims, &flat);
    let names: Vec<String> = lay.slots.iter().map(|s| s.name.clone()).collect();
    let tname = T::tname(&dims);
    let fail = |sig: &str, why: String| Verdict::Fail { sig: format!("C16/{sig}"), why: format!("{tname}: {why}; parts {}", flat_json(&lay, &flat)) };
    let same = |y: &T| -> Option<usize> {
        let f = y.to_flat(&dims);
        (0..f.vals.len()).find(|i| f.vals[*i].to_bits() != vals[*i].to_bits())
    };
    // (i) exact in-memory format: structure and round trip
    let v = match serde_json::to_value(&x) {
        Ok(v) => v,
        Err(e) => return fail("serialize", format!("to_value failed: {e}")),
    };
    let want = expected_value(&names, &vals, is32);
    if v != want {
        return fail("structure", format!("serialized form is {v} but the documented fields give {want} (each part under its own field name, nothing else)"));
    }
    match serde_json::from_value::<T>(v.clone()) {
        Ok(y) => {
            if let Some(i) = same(&y) {
                return fail("roundtrip-value", format!("part {} is {:e} after deserialization", names[i], y.to_flat(&dims).vals[i]));
            }
        }
        Err(e) => return fail("deserialize", format!("from_value failed: {e}")),
    }
    // (ii) JSON text, for values the format represents exactly (checked per value)
    let exact_in_text = vals.iter().all(|p| {
        if is32 {
            let f = *p as f32;
            serde_json::to_string(&f).ok().and_then(|s| serde_json::from_str::<f32>(&s).ok()).map_or(false, |g| g.to_bits() == f.to_bits())
        } else {
            serde_json::to_string(p).ok().and_then(|s| serde_json::from_str::<f64>(&s).ok()).map_or(false, |g| g.to_bits() == p.to_bits())
        }
    });
    if exact_in_text {
        let text = match serde_json::to_string(&x) {
            Ok(t) => t,
            Err(e) => return fail("serialize", format!("to_string failed: {e}")),
        };
        match serde_json::from_str::<T>(&text) {
            Ok(y) => {
                if let Some(i) = same(&y) {
                    return fail("roundtrip-text", format!("part {} is {:e} after the JSON text round trip `{text}`", names[i], y.to_flat(&dims).vals[i]));
                }
            }
            Err(e) => return fail("deserialize", format!("from_str failed on `{text}`: {e}")),
        }
        // metamorphic: the key order does not matter (fields are bound by name)
        let shuffled = permuted_text(&v, &case.perm, 0);
        match serde_json::from_str::<T>(&shuffled) {
            Ok(y) => {
                if let Some(i) = same(&y) {
                    return fail("key-order", format!("part {} changes to {:e} when the keys are reordered: `{shuffled}`", names[i], y.to_flat(&dims).vals[i]));
                }
            }
            Err(e) => return fail("key-order", format!("from_str failed on the reordered text `{shuffled}`: {e}")),
        }
        st.class("json text round trip");
    } else {
        st.class("json text skipped (a value is not exactly representable in the text format)");
    }
    // metamorphic: swapping two leaf values in the serialized form swaps exactly those parts
    let n = names.len();
    let (i, j) = (case.perm[0] as usize % n, case.perm[1 % case.perm.len()] as usize % n);
    if i != j {
        let mut sw = vals.clone();
        sw.swap(i, j);
        let vs = expected_value(&names, &sw, is32);
        match serde_json::from_value::<T>(vs) {
            Ok(y) => {
                let f = y.to_flat(&dims);
                if let Some(k) = (0..n).find(|k| f.vals[*k].to_bits() != sw[*k].to_bits()) {
                    return fail("field-binding", format!("after swapping the serialized values of {} and {} part {} is {:e}", names[i], names[j], names[k], f.vals[k]));
                }
            }
            Err(e) => return fail("deserialize", format!("from_value failed: {e}")),
        }
    }
    st.class(&format!("type:{}", TYPES[case.ty].name));
    let mut sorted: Vec<u64> = vals.iter().map(|v| v.to_bits()).collect();
    sorted.sort();
    sorted.dedup();
    let nontrivial = sorted.len() == vals.len();
    if nontrivial && st.wants_sample() {
        st.sample(|| json!({"type": tname, "serialized": v}));
    }
    Verdict::Pass { nontrivial }
}

impl Property for C16 {
    type Case = Case;
    const ID: &'static str = "C16";
    fn strategy(_tier: Tier) -> BoxedStrategy<Case> {
        (0..SERDE_TYPES.len(), proptest::collection::vec(any::<u64>(), 16), proptest::collection::vec(any::<u8>(), 8)).prop_map(|(t, bits, perm)| Case { ty: SERDE_TYPES[t], bits, perm }).boxed()
    }
    fn check(case: &Case, st: &mut Stats) -> Verdict {
        if case.bits.is_empty() || case.perm.is_empty() {
            return Verdict::Trivial("malformed case");
        }
        dispatch_serde(case, st)
    }
    fn cases(tier: Tier) -> u64 {
        match tier {
            Tier::Quick => 200_000,
            Tier::Thorough => 5_000_000,
        }
    }
    fn rule() -> String {
        "generated: (one of the 20 serializable scalar types - Dual, Dual2, Dual3, HyperDual, HyperHyperDual over f32/f64 and 10 nestings such as Dual2<Dual64>, HyperDual<HyperDual64>, Dual<Dual<Dual64>> -, every part an arbitrary finite float from random bit patterns incl. -0, denormals, extreme exponents). Formats: (i) serde_json::Value as an exact in-memory format: the serialized form must be EXACTLY the documented structure (each part under its own field name re/eps/v1/.../eps1eps2eps3, inner numbers nested under their field, nothing else, no marker field) and deserialize(serialize(x)) must equal x bit for bit in every part; (ii) JSON text (float_roundtrip), for values that round-trip as a bare float in that format; metamorphic: reordering the keys of every object does not change the result (fields are bound by name), swapping two serialized values swaps exactly those parts. Non-trivial: all parts pairwise distinct.".into()
    }
    fn assumptions() -> Vec<String> {
        vec!["serde_json (with float_roundtrip) is the only data format exercised".into()]
    }
}
