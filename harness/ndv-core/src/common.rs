//! Shared pieces of the checks: generators for parts, operand construction, comparison of a
//! library value with a reference jet under the tolerance model of DESIGN.md 3.4.

use crate::engine::Stats;
use crate::types::{Flat, Flt, Layout};
use ndv_oracle::{Alg, Jet};
use proptest::prelude::*;
use serde_json::{json, Value};
use std::sync::Arc;

/// global tolerance factor
pub const K: f64 = 32.0;

/// mixture for a derivative part (DESIGN.md 3.6)
pub fn part_value() -> impl Strategy<Value = f64> {
    prop_oneof![
        15 => Just(0.0f64),
        5 => Just(1.0f64),
        5 => Just(-1.0f64),
        20 => (-32i32..=32).prop_map(|k| k as f64 / 8.0),
        30 => (-3.0f64..3.0),
        25 => (0.0f64..1.0, any::<bool>()).prop_map(|(u, s)| {
            let m = 10f64.powf(-3.0 + 6.0 * u);
            if s { -m } else { m }
        }),
    ]
}

/// pool of raw part values, long enough for every registered layout
pub const POOL: usize = 56;
pub fn parts_pool() -> impl Strategy<Value = Vec<f64>> {
    proptest::collection::vec(part_value(), POOL)
}
/// presence flags for up to 8 optional block instances: (present with 75 %, explicit zeros with 10 %)
pub fn presence() -> impl Strategy<Value = (Vec<bool>, Vec<bool>)> {
    (
        proptest::collection::vec(proptest::bool::weighted(0.75), 8),
        proptest::collection::vec(proptest::bool::weighted(0.10), 8),
    )
}

/// dims for dynamic types: 0..=6 each, weighted away from 0
pub fn dims_strategy() -> impl Strategy<Value = (u8, u8)> {
    let d = prop_oneof![1 => Just(0u8), 3 => Just(1u8), 6 => Just(2u8), 6 => Just(3u8), 2 => Just(4u8), 1 => Just(5u8), 2 => Just(6u8)];
    (d.clone(), d)
}

pub fn round_to<F: Flt>(x: f64) -> f64 {
    F::from64(x).to64()
}

/// Build the flat operand of a layout: real part `re`, parts from the pool, presence flags.
pub fn make_flat<F: Flt>(lay: &Layout, re: f64, pool: &[f64], pres: &[bool], zero: &[bool]) -> Flat {
    let mut vals = Vec::with_capacity(lay.slots.len());
    let nb = lay.blocks.len();
    let p: Vec<bool> = (0..nb).map(|b| pres[b % pres.len()]).collect();
    for (i, s) in lay.slots.iter().enumerate() {
        if i == 0 {
            vals.push(round_to::<F>(re));
            continue;
        }
        let mut v = round_to::<F>(pool[(i - 1) % pool.len()]);
        // a zero flag on a block zeroes everything nested inside it as well
        let mut blk = s.block;
        while let Some(b) = blk {
            if zero[b % zero.len()] {
                v = 0.0;
            }
            blk = lay.blocks[b].parent;
        }
        vals.push(v);
    }
    Flat { vals, pres: p }
}

#[derive(Debug, Default)]
pub struct Cmp {
    pub fail: Option<(String, String)>,
    pub out_of_domain: bool,
    pub ill: bool,
    pub worst: f64,
    pub exact_parts: usize,
    pub checked_parts: usize,
    /// worst error/(u e) per derivative order
    pub worst_by_order: [f64; 8],
}

/// Compare every part of a library value (flat) with the reference jet.
/// `kfac`: multiple of u*e allowed; `demand_exact`: parts whose reference is exact must agree bit for bit.
pub fn compare<F: Flt>(lay: &Layout, alg: &Arc<Alg>, lib: &Flat, rf: &Jet, kfac: f64, demand_exact: bool, what: &str) -> Cmp {
    compare_with::<F>(lay, alg, lib, rf, &|_| kfac, demand_exact, what)
}

thread_local! {
    /// absolute tolerance floor override for the current case (wide-magnitude strata use a floor
    /// scaled to the float type's subnormal spacing instead of the default)
    pub static FLOOR_OVERRIDE: std::cell::Cell<Option<(f64, f64)>> = const { std::cell::Cell::new(None) };
}
pub fn floor_of<F: Flt>() -> f64 {
    match FLOOR_OVERRIDE.with(|c| c.get()) {
        Some((f64v, f32v)) => {
            if F::IS32 {
                f32v
            } else {
                f64v
            }
        }
        None => F::FLOOR,
    }
}

/// like `compare`, with a tolerance factor depending on the derivative order of the part
pub fn compare_with<F: Flt>(lay: &Layout, alg: &Arc<Alg>, lib: &Flat, rf: &Jet, kf: &dyn Fn(u8) -> f64, demand_exact: bool, what: &str) -> Cmp {
    let mut c = Cmp::default();
    const U64: f64 = 1.1102230246251565e-16;
    for (i, s) in lay.slots.iter().enumerate() {
        let r = rf.c[alg.index(&s.monos[0])];
        if !r.is_finite() {
            c.out_of_domain = true;
            return c;
        }
        // oracle self-consistency on the symmetric copies
        for m in &s.monos[1..] {
            let r2 = rf.c[alg.index(m)];
            let tol = 64.0 * U64 * (r.e + r2.e) + 1e-290;
            if !((r2.v - r.v).abs() <= tol) {
                panic!("ORACLE-INCONSISTENT: symmetric copies of {} differ: {} vs {} ({})", s.name, r.v, r2.v, what);
            }
        }
        let l = lib.vals[i];
        if !l.is_finite() {
            c.fail = Some((
                format!("{what}/nonfinite/order{}", s.order),
                format!("{what}: part {} is {} but the reference value is {:e}", s.name, l, r.v),
            ));
            return c;
        }
        let kfac = kf(s.order);
        let floor = floor_of::<F>();
        let tol = kfac * F::U * r.e + floor;
        let diff = (l - r.v).abs();
        c.checked_parts += 1;
        if r.e > 0.0 && F::U * r.e > 10.0 * floor {
            let ratio = diff / (F::U * r.e);
            if ratio > c.worst {
                c.worst = ratio;
            }
            let o = (s.order as usize).min(7);
            if ratio > c.worst_by_order[o] {
                c.worst_by_order[o] = ratio;
            }
        }
        if diff > tol {
            c.fail = Some((
                format!("{what}/value/order{}", s.order),
                format!(
                    "{what}: part {} = {:e}, reference {:e}, |diff| {:.3e} > tolerance {:.3e} ({}*u*e, e = {:.3e})",
                    s.name, l, r.v, diff, tol, kfac, r.e
                ),
            ));
            return c;
        }
        if r.x {
            c.exact_parts += 1;
            if demand_exact && l != r.v {
                c.fail = Some((
                    format!("{what}/exact/order{}", s.order),
                    format!("{what}: part {} = {:e} differs from the exact value {:e}", s.name, l, r.v),
                ));
                return c;
            }
        }
        if kfac * F::U * r.e > 1e-3 * r.m.max(1e-300) {
            c.ill = true;
        }
    }
    c
}

/// largest magnitude bound over a list of jets
pub fn max_mag(js: &[Jet]) -> f64 {
    let mut m = 0.0f64;
    for j in js {
        for c in &j.c {
            m = m.max(c.m).max(c.v.abs());
        }
    }
    m
}
pub fn huge<F: Flt>() -> f64 {
    if F::IS32 {
        1e30
    } else {
        1e250
    }
}

pub fn flat_json(lay: &Layout, f: &Flat) -> Value {
    let mut m = serde_json::Map::new();
    for (i, s) in lay.slots.iter().enumerate() {
        if lay.slot_present(i, &f.pres) {
            m.insert(s.name.clone(), json!(f.vals[i]));
        }
    }
    Value::Object(m)
}
pub fn jet_json(lay: &Layout, alg: &Arc<Alg>, j: &Jet) -> Value {
    let mut m = serde_json::Map::new();
    for s in lay.slots.iter() {
        let r = j.c[alg.index(&s.monos[0])];
        m.insert(s.name.clone(), json!({"v": r.v, "e": r.e}));
    }
    Value::Object(m)
}

pub fn record_worst(st: &mut Stats, key: &str, c: &Cmp) {
    st.ratio(key, c.worst);
}

/// number of non-zero present parts of order >= `ord`
pub fn nonzero_parts(lay: &Layout, f: &Flat, ord: u8) -> usize {
    lay.slots
        .iter()
        .enumerate()
        .filter(|(i, s)| s.order >= ord && lay.slot_present(*i, &f.pres) && f.vals[*i] != 0.0)
        .count()
}
