//! C13 - subset/superset conversions are lossless, coherent and memory-safe.

use crate::c18::float_from_bits;
use crate::common::*;
use crate::engine::*;
use crate::types::{Flat, Flt, Ty};
use nalgebra::{Const, DMatrix, Dyn, Scalar};
use num_dual::*;
use proptest::prelude::*;
use serde::{Deserialize, Serialize};
use serde_json::json;
use simba::scalar::{SubsetOf, SupersetOf};

#[derive(Clone, Debug, Serialize, Deserialize)]
pub struct Case {
    /// which type family / dimension (index into the instantiation table)
    pub kind: u8,
    /// direction: 0 f32->f64, 1 f64->f32, 2 f32->f32, 3 f64->f64
    pub dir: u8,
    pub dims: (u8, u8),
    pub bits: Vec<u64>,
    pub bits2: Vec<u64>,
    pub pres: Vec<bool>,
    pub pres2: Vec<bool>,
    /// replace some parts by NaN / infinities
    pub special: u8,
}

pub struct C13;

pub const NKIND: u8 = 21;

fn value(b: u64, is32: bool, special: u8, i: usize) -> f64 {
    if special % 8 == 1 && i % 5 == 3 {
        return [f64::NAN, f64::INFINITY, f64::NEG_INFINITY][i % 3];
    }
    if special % 8 == 2 && i % 3 == 1 {
        // not representable in f32: huge / tiny / many digits
        return [1e300, -1e-300, 0.1 + (b % 1000) as f64 * 1e-13, 3.5e38][i % 4] * if is32 { 0.0 } else { 1.0 } + if is32 { (i as f64) * 0.5 } else { 0.0 };
    }
    float_from_bits(b, is32)
}

fn same(a: f64, b: f64) -> bool {
    a.to_bits() == b.to_bits() || (a.is_nan() && b.is_nan())
}

/// expected flat after converting to a type of width `to32`
fn converted(f: &Flat, to32: bool) -> Flat {
    Flat { vals: f.vals.iter().map(|v| if to32 { *v as f32 as f64 } else { *v }).collect(), pres: f.pres.clone() }
}

fn diff(lay: &crate::types::Layout, got: &Flat, want: &Flat) -> Option<String> {
    for b in 0..got.pres.len() {
        if got.pres[b] != want.pres[b] {
            return Some(format!("block {} is {} but should be {}", lay.blocks[b].name, if got.pres[b] { "present" } else { "absent" }, if want.pres[b] { "present" } else { "absent" }));
        }
    }
    for i in 0..got.vals.len() {
        if lay.slot_present(i, &want.pres) && !same(got.vals[i], want.vals[i]) {
            return Some(format!("part {} is {:e} but should be {:e}", lay.slots[i].name, got.vals[i], want.vals[i]));
        }
    }
    None
}

/// all checks for one ordered pair: S is converted into P (P plays the superset role)
fn pair<S, P>(dims: &[usize], xs: &Flat, yp: &Flat, st: &mut Stats) -> Result<bool, Verdict>
where
    S: Ty + DualNum<<S as Ty>::F> + SubsetOf<P> + Scalar,
    P: Ty + DualNum<<P as Ty>::F> + SupersetOf<S> + Scalar,
    S: SupersetOf<f32> + SupersetOf<f64>,
{
    let lay = S::layout(dims);
    let (s32, p32) = (<S::F as Flt>::IS32, <P::F as Flt>::IS32);
    let name = format!("{} -> {}", S::tname(dims), P::tname(dims));
    let fail = |sig: &str, why: String| Verdict::Fail { sig: format!("C13/{sig}"), why: format!("{name}: {why}; value {}", flat_json(&lay, xs)) };
    let x = S::from_flat(dims, xs);
    // 1. to_superset: per-part `as` conversion (exact when widening), presence pattern kept
    let y: P = x.to_superset();
    let want_y = converted(xs, p32);
    if let Some(d) = diff(&lay, &y.to_flat(dims), &want_y) {
        return Err(fail("to_superset", format!("to_superset: {d}")));
    }
    let y2: P = P::from_subset(&x);
    if let Some(d) = diff(&lay, &y2.to_flat(dims), &want_y) {
        return Err(fail("from_subset", format!("from_subset: {d}")));
    }
    // 2. narrowing it back
    let back = S::from_superset(&y);
    let inside = <S as SubsetOf<P>>::is_in_subset(&y);
    if back.is_some() != inside {
        return Err(fail(
            "from_superset/absent-part",
            format!("from_superset(to_superset(x)) is {} but is_in_subset is {} (presence {:?})", if back.is_some() { "Some" } else { "None" }, inside, xs.pres),
        ));
    }
    let want_back = converted(&want_y, s32);
    match &back {
        Some(b) => {
            if let Some(d) = diff(&lay, &b.to_flat(dims), &want_back) {
                return Err(fail("roundtrip", format!("from_superset(to_superset(x)): {d}")));
            }
        }
        None => return Err(fail("roundtrip", "from_superset(to_superset(x)) is None".into())),
    }
    if let Some(d) = diff(&lay, &S::from_superset_unchecked(&y).to_flat(dims), &want_back) {
        return Err(fail("roundtrip", format!("from_superset_unchecked(to_superset(x)): {d}")));
    }
    // 3. an arbitrary superset value: checked narrowing succeeds exactly when the predicate holds
    //    and returns the per-part rounded value with the same presence pattern
    let yv = P::from_flat(dims, yp);
    let r = S::from_superset(&yv);
    let pred = <S as SubsetOf<P>>::is_in_subset(&yv);
    if r.is_some() != pred {
        return Err(Verdict::Fail {
            sig: "C13/from_superset/absent-part".into(),
            why: format!("{name}: from_superset(y) is {} but is_in_subset(y) is {}; y = {} (presence {:?})", if r.is_some() { "Some" } else { "None" }, pred, flat_json(&lay, yp), yp.pres),
        });
    }
    let want_r = converted(yp, s32);
    if let Some(rv) = &r {
        if let Some(d) = diff(&lay, &rv.to_flat(dims), &want_r) {
            return Err(fail("narrowing", format!("from_superset(y) with y = {}: {d}", flat_json(&lay, yp))));
        }
    }
    let r2: Option<S> = yv.to_subset();
    if r2.is_some() != pred {
        return Err(fail("to_subset", "to_subset and is_in_subset disagree".into()));
    }
    if let Some(d) = diff(&lay, &yv.to_subset_unchecked().to_flat(dims), &want_r) {
        return Err(fail("narrowing", format!("to_subset_unchecked(y): {d}")));
    }
    // 4. plain floats: lifting yields a constant, extracting yields the real part
    for (k, f) in [xs.vals[0], yp.vals[0], 0.1, -2.5e-7].iter().enumerate() {
        let c32: S = <S as SupersetOf<f32>>::from_subset(&(*f as f32));
        let c64: S = <S as SupersetOf<f64>>::from_subset(f);
        for (c, w) in [(&c32, *f as f32 as f64), (&c64, *f)] {
            let fl = c.to_flat(dims);
            let wre = if s32 { w as f32 as f64 } else { w };
            if !same(fl.vals[0], wre) || (1..fl.vals.len()).any(|i| lay.slot_present(i, &fl.pres) && fl.vals[i] != 0.0) {
                return Err(fail("from_float", format!("from_subset({w:e}) = {} is not the constant {wre:e}", flat_json(&lay, &fl))));
            }
        }
        if k == 0 {
            let e64: f64 = <S as SupersetOf<f64>>::to_subset_unchecked(&x);
            let e32: f32 = <S as SupersetOf<f32>>::to_subset_unchecked(&x);
            if !same(e64, xs.vals[0]) || !same(e32 as f64, xs.vals[0] as f32 as f64) {
                return Err(fail("to_float", format!("to_subset_unchecked gives {e64:e} / {e32:e} for real part {:e}", xs.vals[0])));
            }
            let o: Option<f64> = <S as SupersetOf<f64>>::to_subset(&x);
            if o.is_some() != <S as SupersetOf<f64>>::is_in_subset(&x) || (o.is_some() && !same(o.unwrap(), xs.vals[0])) {
                return Err(fail("to_float", "to_subset::<f64> disagrees with is_in_subset / the real part".into()));
            }
        }
    }
    // 5. the same through nalgebra's convert / try_convert / Matrix::cast
    let yc: P = nalgebra::convert(x.clone());
    if let Some(d) = diff(&lay, &yc.to_flat(dims), &want_y) {
        return Err(fail("nalgebra-convert", format!("nalgebra::convert: {d}")));
    }
    let yr: P = nalgebra::convert_ref(&x);
    if let Some(d) = diff(&lay, &yr.to_flat(dims), &want_y) {
        return Err(fail("nalgebra-convert", format!("nalgebra::convert_ref: {d}")));
    }
    let tc: Option<S> = nalgebra::try_convert(yv.clone());
    if tc.is_some() != pred {
        return Err(fail("from_superset/absent-part", format!("nalgebra::try_convert(y) is {} but is_in_subset(y) is {} (presence {:?})", if tc.is_some() { "Some" } else { "None" }, pred, yp.pres)));
    }
    if let Some(t) = &tc {
        if let Some(d) = diff(&lay, &t.to_flat(dims), &want_r) {
            return Err(fail("nalgebra-convert", format!("nalgebra::try_convert: {d}")));
        }
    }
    let m: DMatrix<S> = DMatrix::from_fn(2, 2, |i, j| if (i + j) % 2 == 0 { x.clone() } else { S::from_flat(dims, &converted(&Flat { vals: xs.vals.iter().map(|v| -*v).collect(), pres: xs.pres.clone() }, s32)) });
    let mc: DMatrix<P> = m.clone().cast::<P>();
    for i in 0..2 {
        for j in 0..2 {
            let want = m[(i, j)].to_superset();
            if let Some(d) = diff(&lay, &mc[(i, j)].to_flat(dims), &want.to_flat(dims)) {
                return Err(fail("matrix-cast", format!("Matrix::cast entry ({i},{j}): {d}")));
            }
        }
    }
    st.class(&format!("direction:{}->{}", <S::F as Flt>::NAME, <P::F as Flt>::NAME));
    st.class(&format!("type:{}", S::tname(dims)));
    let absent = xs.pres.iter().any(|p| !*p) || yp.pres.iter().any(|p| !*p);
    if absent {
        st.class("with an absent part");
    }
    Ok(absent || (dims[0] >= 2 && S::tname(dims).contains("Dyn")))
}

/// Conversions between types of DIFFERENT nesting depth: S = X<F> (subset) and P = X<Dual64> (each
/// part of P is itself a dual number). Legal through `Dual64: SupersetOf<F>`: lifting embeds each part
/// as a constant, the checked narrowing succeeds exactly when the predicate holds and extracts the
/// real part of each part.
fn pair_depth<S, P>(dims: &[usize], xs: &Flat, yp: &Flat, st: &mut Stats) -> Result<bool, Verdict>
where
    S: Ty + DualNum<<S as Ty>::F> + SubsetOf<P> + Scalar,
    P: Ty<F = f64> + DualNum<f64> + SupersetOf<S> + Scalar,
{
    let (ls, lp) = (S::layout(dims), P::layout(dims));
    let s32 = <S::F as Flt>::IS32;
    let name = format!("{} -> {}", S::tname(dims), P::tname(dims));
    let fail = |sig: &str, why: String| Verdict::Fail { sig: format!("C13/depth/{sig}"), why: format!("{name}: {why}; x = {}, y = {}", flat_json(&ls, xs), flat_json(&lp, yp)) };
    // slot of P holding the real part / the inner derivative part of S's slot i
    let find = |suffix: &str, i: usize| -> usize {
        let want = format!("{}.{suffix}", ls.slots[i].name);
        lp.slots.iter().position(|t| t.name == want).unwrap_or_else(|| panic!("HARNESS-BUG: no slot {want} in {}", P::tname(dims)))
    };
    let x = S::from_flat(dims, xs);
    let xf = x.to_flat(dims);
    // 1. lifting: every part becomes a constant
    let y: P = x.to_superset();
    let yf = y.to_flat(dims);
    for i in 0..ls.slots.len() {
        let (r, e) = (find("re", i), find("eps", i));
        let present = ls.slot_present(i, &xf.pres);
        let want = if present { xf.vals[i] } else { 0.0 };
        if !same(yf.vals[r], want) && !(want == 0.0 && yf.vals[r] == 0.0) || yf.vals[e] != 0.0 {
            return Err(fail("to_superset", format!("to_superset: part {} is {:e} + {:e} eps, expected the constant {:e}", ls.slots[i].name, yf.vals[r], yf.vals[e], want)));
        }
    }
    let back = S::from_superset(&y);
    if !<S as SubsetOf<P>>::is_in_subset(&y) || back.is_none() {
        return Err(fail("roundtrip", format!("from_superset(to_superset(x)) is {} and is_in_subset is {}", if back.is_some() { "Some" } else { "None" }, <S as SubsetOf<P>>::is_in_subset(&y))));
    }
    let bf = back.unwrap().to_flat(dims);
    for i in 0..ls.slots.len() {
        let a = if ls.slot_present(i, &bf.pres) { bf.vals[i] } else { 0.0 };
        let b = if ls.slot_present(i, &xf.pres) { xf.vals[i] } else { 0.0 };
        if !same(a, b) && !(a == 0.0 && b == 0.0) {
            return Err(fail("roundtrip", format!("from_superset(to_superset(x)): part {} is {a:e}, was {b:e}", ls.slots[i].name)));
        }
    }
    // 2. an arbitrary value of the deeper type
    let yv = P::from_flat(dims, yp);
    let yvf = yv.to_flat(dims);
    let pred = <S as SubsetOf<P>>::is_in_subset(&yv);
    let r = S::from_superset(&yv);
    let r2: Option<S> = yv.to_subset();
    let r3: Option<S> = nalgebra::try_convert(yv.clone());
    if r.is_some() != pred || r2.is_some() != pred || r3.is_some() != pred {
        return Err(fail("coherence", format!("is_in_subset(y) = {pred} but from_superset / to_subset / try_convert give {} / {} / {}", r.is_some(), r2.is_some(), r3.is_some())));
    }
    let unchecked = S::from_superset_unchecked(&yv).to_flat(dims);
    for (what, got) in [("from_superset", r.map(|v| v.to_flat(dims))), ("to_subset", r2.map(|v| v.to_flat(dims))), ("try_convert", r3.map(|v| v.to_flat(dims))), ("from_superset_unchecked", Some(unchecked))] {
        if let Some(g) = got {
            for i in 0..ls.slots.len() {
                let src = yvf.vals[find("re", i)];
                let src = if lp.slot_present(find("re", i), &yvf.pres) { src } else { 0.0 };
                let want = if s32 { src as f32 as f64 } else { src };
                let have = if ls.slot_present(i, &g.pres) { g.vals[i] } else { 0.0 };
                if !same(have, want) && !(have == 0.0 && want == 0.0) {
                    return Err(fail("narrowing", format!("{what}(y): part {} is {have:e}, expected the real part {want:e} of that part", ls.slots[i].name)));
                }
            }
        }
    }
    st.class(&format!("nesting depth changes: {name}"));
    Ok(pred)
}

macro_rules! kind_depth {
    ($case:expr, $st:expr, $dims:expr, $s32:ty, $s64:ty, $p:ty) => {{
        let case: &Case = $case;
        let dims: &[usize] = $dims;
        let (ls, lp) = (<$s64 as Ty>::layout(dims), <$p as Ty>::layout(dims));
        let s32 = case.dir % 2 == 0;
        let mkv = |n: usize, bits: &Vec<u64>, is32: bool| -> Vec<f64> { (0..n).map(|i| value(bits[i % bits.len()].rotate_left((i / bits.len()) as u32 * 3), is32, case.special, i)).map(|v| if is32 { v as f32 as f64 } else { v }).collect() };
        let xs = Flat { vals: mkv(ls.slots.len(), &case.bits, s32), pres: (0..ls.blocks.len()).map(|b| case.pres[b % case.pres.len()]).collect() };
        let mut yv = mkv(lp.slots.len(), &case.bits2, false);
        // half of the cases: the inner derivative parts of y vanish (candidates for the subset)
        if case.dir >= 2 {
            for (i, s) in lp.slots.iter().enumerate() {
                if s.name.ends_with(".eps") {
                    yv[i] = 0.0;
                }
            }
        }
        let yp = Flat { vals: yv, pres: (0..lp.blocks.len()).map(|b| case.pres2[b % case.pres2.len()]).collect() };
        if s32 {
            pair_depth::<$s32, $p>(dims, &xs, &yp, $st)
        } else {
            pair_depth::<$s64, $p>(dims, &xs, &yp, $st)
        }
    }};
}

macro_rules! kind {
    ($case:expr, $st:expr, $dims:expr, $a32:ty, $a64:ty) => {{
        let case: &Case = $case;
        let dims: &[usize] = $dims;
        let (s32, p32) = match case.dir % 4 {
            0 => (true, false),
            1 => (false, true),
            2 => (true, true),
            _ => (false, false),
        };
        let lay = <$a64 as Ty>::layout(dims);
        let mk = |bits: &Vec<u64>, pres: &Vec<bool>, is32: bool| -> Flat {
            let vals: Vec<f64> = (0..lay.slots.len()).map(|i| value(bits[i % bits.len()].rotate_left((i / bits.len()) as u32 * 3), is32, case.special, i)).collect();
            let vals = vals.into_iter().map(|v| if is32 { v as f32 as f64 } else { v }).collect();
            Flat { vals, pres: (0..lay.blocks.len()).map(|b| pres[b % pres.len()]).collect() }
        };
        let xs = mk(&case.bits, &case.pres, s32);
        let yp = mk(&case.bits2, &case.pres2, p32);
        match (s32, p32) {
            (true, false) => pair::<$a32, $a64>(dims, &xs, &yp, $st),
            (false, true) => pair::<$a64, $a32>(dims, &xs, &yp, $st),
            (true, true) => pair::<$a32, $a32>(dims, &xs, &yp, $st),
            (false, false) => pair::<$a64, $a64>(dims, &xs, &yp, $st),
        }
    }};
}

pub fn run_case(case: &Case, st: &mut Stats) -> Result<bool, Verdict> {
    let dims = [case.dims.0 as usize % 7, case.dims.1 as usize % 7];
    let d = &dims[..];
    match case.kind % NKIND {
        0 => kind!(case, st, d, Dual32, Dual64),
        1 => kind!(case, st, d, Dual2_32, Dual2_64),
        2 => kind!(case, st, d, DualVec<f32, f32, Const<1>>, DualVec<f64, f64, Const<1>>),
        3 => kind!(case, st, d, DualVec<f32, f32, Const<2>>, DualVec<f64, f64, Const<2>>),
        4 => kind!(case, st, d, DualVec<f32, f32, Const<3>>, DualVec<f64, f64, Const<3>>),
        5 => kind!(case, st, d, DualVec<f32, f32, Const<6>>, DualVec<f64, f64, Const<6>>),
        6 | 7 => kind!(case, st, d, DualVec<f32, f32, Dyn>, DualVec<f64, f64, Dyn>),
        8 => kind!(case, st, d, Dual2Vec<f32, f32, Const<1>>, Dual2Vec<f64, f64, Const<1>>),
        9 => kind!(case, st, d, Dual2Vec<f32, f32, Const<2>>, Dual2Vec<f64, f64, Const<2>>),
        10 => kind!(case, st, d, Dual2Vec<f32, f32, Const<3>>, Dual2Vec<f64, f64, Const<3>>),
        11 => kind!(case, st, d, Dual2Vec<f32, f32, Const<6>>, Dual2Vec<f64, f64, Const<6>>),
        12 | 13 => kind!(case, st, d, Dual2Vec<f32, f32, Dyn>, Dual2Vec<f64, f64, Dyn>),
        // nested element types with heap storage
        14 => kind!(case, st, d, Dual<DualVec<f32, f32, Dyn>, f32>, Dual<DualVec<f64, f64, Dyn>, f64>),
        15 => kind!(case, st, d, DualVec<Dual32, f32, Dyn>, DualVec<Dual64, f64, Dyn>),
        // conversions that change the nesting depth
        16 => kind_depth!(case, st, d, Dual32, Dual64, Dual<Dual64, f64>),
        17 => kind_depth!(case, st, d, Dual2_32, Dual2_64, Dual2<Dual64, f64>),
        18 => kind_depth!(case, st, d, DualVec<f32, f32, Dyn>, DualVec<f64, f64, Dyn>, DualVec<Dual64, f64, Dyn>),
        19 => kind_depth!(case, st, d, DualVec<f32, f32, Const<2>>, DualVec<f64, f64, Const<2>>, DualVec<Dual64, f64, Const<2>>),
        _ => kind_depth!(case, st, d, Dual2Vec<f32, f32, Const<2>>, Dual2Vec<f64, f64, Const<2>>, Dual2Vec<Dual64, f64, Const<2>>),
    }
}

thread_local! {
    pub static LIVE_ALLOCS: std::cell::Cell<i64> = const { std::cell::Cell::new(0) };
    pub static LIVE_BYTES: std::cell::Cell<i64> = const { std::cell::Cell::new(0) };
}

impl Property for C13 {
    type Case = Case;
    const ID: &'static str = "C13";
    fn strategy(_tier: Tier) -> BoxedStrategy<Case> {
        (
            (0..NKIND, 0u8..4, dims_strategy(), 0u8..8),
            proptest::collection::vec(any::<u64>(), 48),
            proptest::collection::vec(any::<u64>(), 48),
            proptest::collection::vec(proptest::bool::weighted(0.65), 4),
            proptest::collection::vec(proptest::bool::weighted(0.65), 4),
        )
            .prop_map(|((kind, dir, dims, special), bits, bits2, pres, pres2)| Case { kind, dir, dims, bits, bits2, pres, pres2, special })
            .boxed()
    }
    fn check(case: &Case, st: &mut Stats) -> Verdict {
        if case.bits.is_empty() || case.bits2.is_empty() || case.pres.is_empty() || case.pres2.is_empty() {
            return Verdict::Trivial("malformed case");
        }
        let r = run_case(case, st);
        let v = match r {
            Err(v) => v,
            Ok(nontrivial) => {
                // leak oracle: a second evaluation with a throw-away (frozen) Stats must leave the
                // number of live allocations and live bytes of this thread exactly unchanged
                let live = || (LIVE_ALLOCS.with(|c| c.get()), LIVE_BYTES.with(|c| c.get()));
                let before = live();
                {
                    let mut tmp = Stats::new();
                    tmp.frozen = true;
                    let _ = run_case(case, &mut tmp);
                }
                let after = live();
                if crate::ALLOC_TRACKING.load(std::sync::atomic::Ordering::Relaxed) && before != after {
                    Verdict::Fail {
                        sig: "C13/leak".into(),
                        why: format!("conversion case leaked {} allocations / {} bytes (kind {}, direction {}, dims {:?})", after.0 - before.0, after.1 - before.1, case.kind % NKIND, case.dir % 4, case.dims),
                    }
                } else {
                    st.count("leak_checked_cases", 1);
                    Verdict::Pass { nontrivial }
                }
            }
        };
        if matches!(v, Verdict::Pass { .. }) && st.wants_sample() {
            st.sample(|| json!({"kind": case.kind % NKIND, "direction": case.dir % 4, "dims": [case.dims.0 % 7, case.dims.1 % 7], "presence": case.pres, "presence_superset_value": case.pres2, "special": case.special % 8}));
        }
        v
    }
    fn direct_case(seed: u64, i: u64) -> Option<Case> {
        let mut s = splitmix(seed ^ splitmix(i.wrapping_mul(0x9E37_79B9)));
        let mut next = || {
            s = splitmix(s);
            s
        };
        let a = next();
        Some(Case {
            kind: (a % NKIND as u64) as u8,
            dir: ((a >> 8) % 4) as u8,
            dims: (((a >> 16) % 5) as u8, ((a >> 24) % 5) as u8),
            bits: (0..12).map(|_| next()).collect(),
            bits2: (0..12).map(|_| next()).collect(),
            pres: (0..4).map(|k| (a >> (32 + k)) & 3 != 0).collect(),
            pres2: (0..4).map(|k| (a >> (40 + 2 * k)) & 3 != 0).collect(),
            special: ((a >> 50) % 8) as u8,
        })
    }
    fn cases(tier: Tier) -> u64 {
        match tier {
            Tier::Quick => 200_000,
            Tier::Thorough => 5_000_000,
        }
    }
    fn rule() -> String {
        "generated: (one of the four convertible types Dual, DualVec, Dual2, Dual2Vec, static N in {1,2,3,6} and dynamic 0..6, plus nested element types with heap storage (Dual<DualDVec>, DualDVec<Dual>) and five pairs whose nesting depth differs (X<f32|f64> <-> X<Dual64> for Dual, Dual2, DualVec dynamic and static, Dual2Vec: lifting makes every part a constant, the checked narrowing is coherent with is_in_subset / to_subset / try_convert and extracts the real part of every part); direction (F,F') in {f32,f64}^2; arbitrary finite parts from random bit patterns, values not representable in f32, NaN/inf; presence patterns with 35% absent parts on both the subset value and an independent superset value). Oracles: to_superset / from_subset / nalgebra::convert(_ref) give the per-part `as` conversion (exact when widening) and keep the presence pattern; from_superset(to_superset(x)) = Some(x); for EVERY superset value y, from_superset(y).is_some() == is_in_subset(y) == to_subset(y).is_some() == try_convert(y).is_some() (in particular with absent parts) and the narrowed value is the per-part rounding with the same presence pattern (also unchecked variants); lifting a float is a constant, extracting a float is the real part; Matrix::cast on matrices of duals. Memory: a counting global allocator checks that live allocations return to the pre-case level (leak oracle); the same check function runs under libFuzzer+ASan (fz_convert) and under Miri (thorough tier). Non-trivial: a value with an absent part, or dimension >= 2 with dynamic storage.".into()
    }
    fn assumptions() -> Vec<String> {
        vec!["simba's float conversions: every f64 is `in the subset` f32 (is_in_subset is constantly true for the primitive floats), narrowing is the `as` cast".into()]
    }
}
