//! Glue for the libFuzzer targets: decode bytes into the property's Case type, run the SAME check
//! function as the proptest path (the semantic oracle is inside the target), count, and abort on a
//! violation after writing a replay file.

use crate::bytesde::from_bytes;
use crate::engine::{Property, Stats, Verdict};
use serde_json::json;
use std::cell::RefCell;
use std::sync::atomic::{AtomicU64, Ordering};

pub static EXECS: AtomicU64 = AtomicU64::new(0);
pub static PASSES: AtomicU64 = AtomicU64::new(0);
pub static NONTRIVIAL: AtomicU64 = AtomicU64::new(0);
pub static TRIVIAL: AtomicU64 = AtomicU64::new(0);

thread_local! {
    static STATS: RefCell<Stats> = RefCell::new({ let mut s = Stats::new(); s.sample_cap = 2; s });
}

fn flush(target: &str) {
    if let Ok(p) = std::env::var("NDV_FUZZ_STATS") {
        let samples = STATS.with(|s| s.borrow().samples.clone());
        let classes = STATS.with(|s| s.borrow().classes.clone());
        let v = json!({"target": target, "executions": EXECS.load(Ordering::Relaxed), "passes": PASSES.load(Ordering::Relaxed),
            "nontrivial": NONTRIVIAL.load(Ordering::Relaxed), "trivial_or_out_of_domain": TRIVIAL.load(Ordering::Relaxed), "classes": classes, "samples": samples});
        let _ = std::fs::write(p, serde_json::to_string(&v).unwrap_or_default());
    }
}

/// decode and check one input; panics (=> libFuzzer crash artefact) on a violation
pub fn fuzz_one<P: Property>(target: &str, data: &[u8]) {
    let case: P::Case = match from_bytes(data) {
        Ok(c) => c,
        Err(_) => return,
    };
    let v = STATS.with(|s| P::check(&case, &mut s.borrow_mut()));
    let n = EXECS.fetch_add(1, Ordering::Relaxed) + 1;
    match v {
        Verdict::Pass { nontrivial } => {
            PASSES.fetch_add(1, Ordering::Relaxed);
            if nontrivial {
                NONTRIVIAL.fetch_add(1, Ordering::Relaxed);
            }
        }
        Verdict::Trivial(_) => {
            TRIVIAL.fetch_add(1, Ordering::Relaxed);
        }
        Verdict::Fail { sig, why } => {
            flush(target);
            let body = json!({"property": P::ID, "signature": sig, "why": why, "case": case, "found_by": target});
            let dir = std::path::Path::new(crate::engine::VERIF_ROOT).join("replays");
            let _ = std::fs::create_dir_all(&dir);
            let s = serde_json::to_string_pretty(&body).unwrap_or_default();
            let path = dir.join(format!("{}-fuzz-{:016x}.json", P::ID, crate::engine::fingerprint(&s)));
            let _ = std::fs::write(&path, s);
            eprintln!("failure [{sig}]: {why}");
            eprintln!("VIOLATION property={} replay={}", P::ID, path.display());
            panic!("property {} violated: {sig}", P::ID);
        }
    }
    if n % 4096 == 0 {
        flush(target);
    }
}

/// re-run a raw fuzz input outside the fuzzer (used to turn a crash artefact into a replay file)
pub fn replay_bytes<P: Property>(data: &[u8]) -> Option<(P::Case, Verdict)> {
    let case: P::Case = from_bytes(data).ok()?;
    let mut st = Stats::new();
    let v = P::check(&case, &mut st);
    Some((case, v))
}
