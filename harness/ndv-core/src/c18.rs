//! C18 - textual rendering shows every part faithfully.

use crate::common::*;
use crate::engine::*;
use crate::registry::{dispatch, TyVisitor, TYPES};
use crate::types::{Flat, Flt, Tok, Ty};
use num_dual::DualNum;
use proptest::prelude::*;
use serde::{Deserialize, Serialize};
use serde_json::json;

#[derive(Clone, Debug, Serialize, Deserialize)]
pub struct Case {
    pub ty: usize,
    pub dims: (u8, u8),
    /// raw bit patterns (mapped to finite floats of the type's width)
    pub bits: Vec<u64>,
    pub pres: Vec<bool>,
    /// below 232: run-time dimensions 0..6; otherwise one run-time dimension is large (7 .. 140 - gradients of
    /// many variables; a rendering that works in blocks or columns breaks only there)
    #[serde(default)]
    pub big: u8,
}

const BIG_DIMS: [usize; 12] = [7, 9, 16, 33, 64, 100, 127, 128, 129, 130, 137, 140];

pub struct C18;

/// finite float of the right width from arbitrary bits; a few bit patterns select special values
pub fn float_from_bits(b: u64, is32: bool) -> f64 {
    match b % 16 {
        0 => return -0.0,
        1 => return 0.0,
        2 => return if is32 { f32::MIN_POSITIVE as f64 } else { f64::MIN_POSITIVE },
        3 => return if is32 { f32::MAX as f64 } else { f64::MAX },
        4 => return if is32 { f32::from_bits(1) as f64 } else { f64::from_bits(1) },
        5 => return -1.0,
        6 => return ((b >> 8) % 2001) as f64 / 8.0 - 125.0,
        7 => return -(((b >> 8) % 100_000) as f64) / 1e7,
        _ => {}
    }
    if is32 {
        let mut w = (b >> 16) as u32;
        if (w >> 23) & 0xff == 0xff {
            w &= !(1 << 30);
        }
        f32::from_bits(w) as f64
    } else {
        let mut w = b;
        if (w >> 52) & 0x7ff == 0x7ff {
            w &= !(1 << 62);
        }
        f64::from_bits(w)
    }
}

/// tokens of a rendered string: numbers and symbol runs; layout characters are ignored
pub fn tokenize(s: &str) -> Result<Vec<(String, bool)>, String> {
    let cs: Vec<char> = s.chars().collect();
    let mut i = 0;
    let mut out = vec![];
    while i < cs.len() {
        let c = cs[i];
        let neg_num = c == '-' && i + 1 < cs.len() && cs[i + 1].is_ascii_digit();
        if c.is_ascii_digit() || neg_num {
            let st = i;
            i += 1;
            while i < cs.len() && (cs[i].is_ascii_digit() || cs[i] == '.' || ((cs[i] == 'e' || cs[i] == 'E') && i + 1 < cs.len() && (cs[i + 1].is_ascii_digit() || cs[i + 1] == '-'))) {
                if cs[i] == 'e' || cs[i] == 'E' {
                    i += 1;
                }
                i += 1;
            }
            out.push((cs[st..i].iter().collect(), true));
        } else if c == 'ε' || c == 'v' {
            let st = i;
            i += 1;
            while i < cs.len() && (cs[i] == 'ε' || cs[i] == 'v' || cs[i] == '²' || cs[i].is_ascii_digit()) {
                i += 1;
            }
            out.push((cs[st..i].iter().collect(), false));
        } else if c.is_alphabetic() {
            // inf / NaN or an unexpected word
            let st = i;
            while i < cs.len() && cs[i].is_alphabetic() {
                i += 1;
            }
            return Err(format!("unexpected word `{}`", cs[st..i].iter().collect::<String>()));
        } else {
            i += 1;
        }
    }
    Ok(out)
}

struct V<'a> {
    case: &'a Case,
    st: &'a mut Stats,
}

impl<'a> TyVisitor for V<'a> {
    type Out = Verdict;
    fn visit<T>(self, dims: &[usize]) -> Verdict
    where
        T: Ty + DualNum<<T as Ty>::F>,
    {
        let case = self.case;
        let lay = T::layout(dims);
        let is32 = <T::F as Flt>::IS32;
        let vals: Vec<f64> = (0..lay.slots.len()).map(|i| round_to::<T::F>(float_from_bits(case.bits[i % case.bits.len()].rotate_left((i / case.bits.len()) as u32 * 7), is32))).collect();
        let pres: Vec<bool> = (0..lay.blocks.len()).map(|b| case.pres[b % case.pres.len()]).collect();
        let flat = Flat { vals, pres };
        let x = T::from_flat(dims, &flat);
        let text = x.to_string();
        let mut expected = vec![];
        x.display_tokens(dims, &mut expected);
        let exp = expected;
        let fail = |why: String| Verdict::Fail { sig: format!("C18/{}", why.split(':').next().unwrap_or("")), why: format!("{} renders as `{}`: {}; stored parts {}", T::tname(dims), text, why, flat_json(&lay, &flat)) };
        let toks = match tokenize(&text) {
            Ok(t) => t,
            Err(e) => return fail(format!("unparsable: {e}")),
        };
        let mut printed_numbers = 0;
        let mut j = 0usize;
        for (k, (txt, is_num)) in toks.iter().enumerate() {
            if *is_num {
                match exp.get(j) {
                    Some(Tok::Num(v)) => {
                        let parsed: Option<f64> = if is32 { txt.parse::<f32>().ok().map(|p| p as f64) } else { txt.parse::<f64>().ok() };
                        match parsed {
                            Some(p) if p.to_bits() == v.to_bits() => printed_numbers += 1,
                            _ => return fail(format!("number: token {k} `{txt}` does not parse back to the stored value {:e} (part dropped, swapped, sign-flipped or altered)", v)),
                        }
                        j += 1;
                    }
                    Some(Tok::Sym(s)) => return fail(format!("order: token {k} is the number `{txt}` where the symbol `{s}` is expected")),
                    None => return fail(format!("token-count: extra number `{txt}` at the end (a part is duplicated)")),
                }
            } else {
                // a run of symbols (nested types print them back to back)
                let mut rest: &str = txt;
                while !rest.is_empty() {
                    match exp.get(j) {
                        Some(Tok::Sym(s)) if rest.starts_with(s.as_str()) => {
                            rest = &rest[s.len()..];
                            j += 1;
                        }
                        Some(Tok::Sym(s)) => return fail(format!("symbol: token {k} is `{txt}` where the symbol `{s}` is expected")),
                        Some(Tok::Num(v)) => return fail(format!("order: token {k} is the symbol `{txt}` where the number {:e} is expected", v)),
                        None => return fail(format!("token-count: extra symbol `{txt}` at the end")),
                    }
                }
            }
        }
        if j != exp.len() {
            return fail(format!("token-count: the rendering ends after {} of {} expected tokens (a part or symbol is missing)", j, exp.len()));
        }
        // the Rust float rendering round-trips on its own as well (sanity of the oracle)
        self.st.count("numbers_parsed_back", printed_numbers as u64);
        self.st.class(&format!("type:{}", TYPES[case.ty].name));
        if flat.pres.iter().any(|p| !*p) {
            self.st.class("with an absent part");
        }
        let shown: Vec<f64> = exp.iter().filter_map(|t| if let Tok::Num(v) = t { Some(*v) } else { None }).collect();
        let nontrivial = shown.len() >= 3 && shown.iter().any(|v| *v < 0.0) && shown.iter().any(|v| (*v != 0.0 && v.abs() < 1e-5) || v.abs() > 1e16);
        if nontrivial && self.st.wants_sample() {
            let t: String = text.chars().take(400).collect();
            self.st.sample(|| json!({"type": T::tname(dims), "rendering (truncated)": t, "tokens": exp.len()}));
        }
        Verdict::Pass { nontrivial }
    }
}

impl Property for C18 {
    type Case = Case;
    const ID: &'static str = "C18";
    fn strategy(_tier: Tier) -> BoxedStrategy<Case> {
        (0..TYPES.len(), dims_strategy(), proptest::collection::vec(any::<u64>(), 56), proptest::collection::vec(proptest::bool::weighted(0.7), 8), prop_oneof![24 => Just(0u8), 1 => 232u8..=255])
            .prop_map(|(ty, dims, bits, pres, big)| Case { ty, dims, bits, pres, big })
            .boxed()
    }
    fn check(case: &Case, st: &mut Stats) -> Verdict {
        if case.ty >= TYPES.len() || case.bits.is_empty() || case.pres.is_empty() {
            return Verdict::Trivial("malformed case");
        }
        let mut dims = [case.dims.0 as usize % 7, case.dims.1 as usize % 7];
        if case.big >= 232 && TYPES[case.ty].ndyn >= 1 {
            let b = BIG_DIMS[case.big as usize % BIG_DIMS.len()];
            // the large one is the first or (two dynamic axes) the second dimension
            if TYPES[case.ty].ndyn >= 2 && case.big >= 244 {
                dims[1] = b;
            } else {
                dims[0] = b;
            }
            st.class("one large run-time dimension (7..140)");
        }
        dispatch(case.ty, &dims, V { case, st })
    }
    fn cases(tier: Tier) -> u64 {
        match tier {
            Tier::Quick => 300_000,
            Tier::Thorough => 10_000_000,
        }
    }
    fn rule() -> String {
        "generated: (any of the 61 registered types incl. static/dynamic vectors of every length 0..6 and nested types; 4% of the cases give a dynamically sized type one large dimension from {7, 9, 16, 33, 64, 100, 127, 128, 129, 130, 137, 140}; every part an arbitrary FINITE float of the type's width from random bit patterns - negative, -0, denormal, huge (300-digit renderings), tiny - all pairwise distinct with overwhelming probability; presence pattern of optional parts). Oracle: `to_string()` is tokenised into numbers and symbol runs (layout characters, brackets and the matrix box are ignored) and must equal, token by token, the sequence derived from the type structure: real part first, then every PRESENT part in the fixed order (matrix blocks row by row), each part/block followed by its documented symbol (ε, ε1, ε1², v1..v3, ε2, ε3, ε1ε2, ...), absent parts missing; every number must parse back (str::parse of the type's width) to exactly the stored bits. Non-trivial: >= 3 numbers printed, one negative and one with |v| < 1e-5 or > 1e16.".into()
    }
    fn assumptions() -> Vec<String> {
        vec!["separators (` + `, `, `, brackets, the nalgebra matrix box) are not part of the oracle; only numbers, symbols and their order are".into()]
    }
}
