//! Runner: drives proptest `TestRunner`s (fixed seeds, fixed case counts, 16 shards), shrinks
//! failures, writes replay files and the evidence file.

use proptest::strategy::{BoxedStrategy, Strategy};
use proptest::test_runner::{Config, RngSeed, TestCaseError, TestError, TestRunner};
use serde::de::DeserializeOwned;
use serde::Serialize;
use serde_json::{json, Value};
use std::cell::RefCell;
use std::collections::{BTreeMap, HashSet};
use std::fmt::Debug;
use std::hash::{Hash, Hasher};
use std::path::{Path, PathBuf};
use std::time::Instant;

pub const VERIF_ROOT: &str = "/verif";

#[derive(Clone, Copy, Debug, PartialEq, Eq)]
pub enum Tier {
    Quick,
    Thorough,
}
impl Tier {
    pub fn name(self) -> &'static str {
        match self {
            Tier::Quick => "quick",
            Tier::Thorough => "thorough",
        }
    }
}

#[derive(Debug, Clone)]
pub enum Verdict {
    /// the oracle was evaluated and the property held; `nontrivial` by the property's rule
    Pass { nontrivial: bool },
    /// nothing was decided (out of domain, ill-conditioned, ...)
    Trivial(&'static str),
    /// the property is violated: (signature, human-readable reason)
    Fail { sig: String, why: String },
}

#[derive(Default)]
pub struct Stats {
    pub frozen: bool,
    pub evaluations: u64,
    pub passes: u64,
    pub nontrivial: HashSet<u64>,
    pub classes: BTreeMap<String, u64>,
    pub trivial: BTreeMap<String, u64>,
    pub worst: BTreeMap<String, f64>,
    pub samples: Vec<Value>,
    pub sample_cap: usize,
    pub extra: BTreeMap<String, u64>,
    /// hits of known findings: key -> (count, first case as JSON)
    pub known: BTreeMap<String, (u64, Value)>,
}

impl Stats {
    pub fn new() -> Self {
        Stats { sample_cap: 3, ..Default::default() }
    }
    pub fn class(&mut self, name: &str) {
        if !self.frozen {
            *self.classes.entry(name.to_string()).or_insert(0) += 1;
        }
    }
    pub fn count(&mut self, name: &str, n: u64) {
        if !self.frozen {
            *self.extra.entry(name.to_string()).or_insert(0) += n;
        }
    }
    pub fn ratio(&mut self, name: &str, r: f64) {
        if self.frozen || !r.is_finite() {
            return;
        }
        let e = self.worst.entry(name.to_string()).or_insert(0.0);
        if r > *e {
            *e = r;
        }
    }
    pub fn sample(&mut self, f: impl FnOnce() -> Value) {
        if !self.frozen && self.samples.len() < self.sample_cap {
            self.samples.push(f());
        }
    }
    /// record an occurrence of a (potentially) known finding; the case is excluded from the search
    /// by the caller. Reported at the end: KNOWN-FINDING if listed in known_findings.json, VIOLATION otherwise.
    pub fn known_hit(&mut self, key: &str, case: impl FnOnce() -> Value) {
        if self.frozen {
            return;
        }
        let e = self.known.entry(key.to_string()).or_insert_with(|| (0, case()));
        e.0 += 1;
    }
    pub fn wants_sample(&self) -> bool {
        !self.frozen && self.samples.len() < self.sample_cap
    }
    fn merge(&mut self, o: Stats) {
        self.evaluations += o.evaluations;
        self.passes += o.passes;
        self.nontrivial.extend(o.nontrivial);
        for (k, v) in o.classes {
            *self.classes.entry(k).or_insert(0) += v;
        }
        for (k, v) in o.trivial {
            *self.trivial.entry(k).or_insert(0) += v;
        }
        for (k, v) in o.extra {
            *self.extra.entry(k).or_insert(0) += v;
        }
        for (k, v) in o.worst {
            let e = self.worst.entry(k).or_insert(0.0);
            if v > *e {
                *e = v;
            }
        }
        for s in o.samples {
            if self.samples.len() < 8 {
                self.samples.push(s);
            }
        }
        for (k, (n, c)) in o.known {
            let e = self.known.entry(k).or_insert((0, c));
            e.0 += n;
        }
    }
}

pub fn fingerprint<T: Hash>(t: &T) -> u64 {
    let mut h = std::collections::hash_map::DefaultHasher::new();
    t.hash(&mut h);
    h.finish()
}
/// hash of a serialisable case (used as the distinctness fingerprint)
pub fn fp_json<T: Serialize>(t: &T) -> u64 {
    fingerprint(&serde_json::to_string(t).unwrap_or_default())
}

pub fn splitmix(mut x: u64) -> u64 {
    x = x.wrapping_add(0x9E3779B97F4A7C15);
    let mut z = x;
    z = (z ^ (z >> 30)).wrapping_mul(0xBF58476D1CE4E5B9);
    z = (z ^ (z >> 27)).wrapping_mul(0x94D049BB133111EB);
    z ^ (z >> 31)
}

/// A property check.
pub trait Property: Sync + 'static {
    type Case: Debug + Clone + Serialize + DeserializeOwned + Send + 'static;
    const ID: &'static str;
    fn strategy(tier: Tier) -> BoxedStrategy<Self::Case>;
    /// pure function of the case
    fn check(case: &Self::Case, st: &mut Stats) -> Verdict;
    fn cases(tier: Tier) -> u64;
    fn rule() -> String;
    fn assumptions() -> Vec<String>;
    /// deterministic extra work done once per run (exhaustive enumerations); returns failures
    fn exhaustive(_tier: Tier, _st: &mut Stats) -> Vec<(Self::Case, String, String)> {
        vec![]
    }
    /// cases that are always evaluated first (hand-written corner cases), besides regressions/
    fn fixed_cases() -> Vec<Self::Case> {
        vec![]
    }
    /// case number `i` of a cheap deterministic stream (a pure function of seed and i), used where
    /// the proptest machinery itself is too slow (under Miri)
    fn direct_case(_seed: u64, _i: u64) -> Option<Self::Case> {
        None
    }
}

pub struct Args {
    pub tier: Tier,
    pub seed: u64,
    pub replay: Option<PathBuf>,
    pub shards: usize,
    pub cases_override: Option<u64>,
    pub evidence: bool,
    /// evaluate this many cases of the direct stream instead of the proptest search
    pub direct: u64,
}

#[derive(serde::Deserialize, Debug, Clone)]
pub struct KnownFinding {
    pub property: String,
    pub key: String,
    pub what: String,
    pub status: String,
    #[serde(default)]
    pub commit: Option<String>,
}

pub fn load_known() -> Vec<KnownFinding> {
    let p = Path::new(VERIF_ROOT).join("known_findings.json");
    match std::fs::read_to_string(&p) {
        Ok(s) => serde_json::from_str(&s).unwrap_or_default(),
        Err(_) => vec![],
    }
}

fn run_case<P: Property>(case: &P::Case, st: &mut Stats) -> Verdict {
    let r = std::panic::catch_unwind(std::panic::AssertUnwindSafe(|| P::check(case, st)));
    match r {
        Ok(v) => v,
        Err(e) => {
            let msg = if let Some(s) = e.downcast_ref::<String>() {
                s.clone()
            } else if let Some(s) = e.downcast_ref::<&str>() {
                s.to_string()
            } else {
                "panic".to_string()
            };
            if msg.contains("ORACLE-INCONSISTENT") || msg.contains("HARNESS-BUG") {
                eprintln!("harness error: {msg}");
                std::process::exit(2);
            }
            Verdict::Fail { sig: "panic".into(), why: format!("panic in library code: {msg}") }
        }
    }
}

fn account(v: &Verdict, fp: impl FnOnce() -> u64, st: &mut Stats) {
    if st.frozen {
        return;
    }
    st.evaluations += 1;
    match v {
        Verdict::Pass { nontrivial } => {
            st.passes += 1;
            if *nontrivial {
                st.nontrivial.insert(fp());
            }
        }
        Verdict::Trivial(r) => {
            *st.trivial.entry(r.to_string()).or_insert(0) += 1;
        }
        Verdict::Fail { .. } => {}
    }
}

pub struct Failure<C> {
    pub case: C,
    pub sig: String,
    pub why: String,
}

fn write_replay<P: Property>(case: &P::Case, sig: &str, why: &str) -> PathBuf {
    let dir = Path::new(VERIF_ROOT).join("replays");
    let _ = std::fs::create_dir_all(&dir);
    let body = json!({"property": P::ID, "signature": sig, "why": why, "case": case});
    let s = serde_json::to_string_pretty(&body).unwrap();
    let h = fingerprint(&s);
    let p = dir.join(format!("{}-{:016x}.json", P::ID, h));
    std::fs::write(&p, s).expect("write replay");
    p
}

pub fn read_case<P: Property>(p: &Path) -> Result<P::Case, String> {
    let s = std::fs::read_to_string(p).map_err(|e| format!("{}: {e}", p.display()))?;
    let v: Value = serde_json::from_str(&s).map_err(|e| format!("{}: {e}", p.display()))?;
    let c = v.get("case").cloned().unwrap_or(v);
    serde_json::from_value(c).map_err(|e| format!("{}: {e}", p.display()))
}

/// Run a property; returns the process exit code.
pub fn run<P: Property>(args: &Args) -> i32 {
    let t0 = Instant::now();
    std::panic::set_hook(Box::new(|_| {}));
    let known = load_known();
    if let Some(path) = &args.replay {
        let case = match read_case::<P>(path) {
            Ok(c) => c,
            Err(e) => {
                eprintln!("cannot read replay file: {e}");
                return 2;
            }
        };
        let mut st = Stats::new();
        let v = run_case::<P>(&case, &mut st);
        println!("replay {}: {:?}", path.display(), v);
        return match v {
            Verdict::Fail { sig, .. } => {
                if known.iter().any(|k| k.property == P::ID && k.status == "known" && k.key == sig) {
                    println!("KNOWN-FINDING: property={} {}", P::ID, sig);
                    0
                } else {
                    println!("VIOLATION property={} replay={}", P::ID, path.display());
                    1
                }
            }
            _ => 0,
        };
    }

    let mut total = Stats::new();
    total.sample_cap = 8;
    let mut failures: Vec<Failure<P::Case>> = vec![];

    // 1. regression files and fixed cases (replayed first on every run)
    let regdir = Path::new(VERIF_ROOT).join("regressions").join(P::ID);
    let mut regs: Vec<PathBuf> = std::fs::read_dir(&regdir)
        .map(|d| d.filter_map(|e| e.ok().map(|e| e.path())).filter(|p| p.extension().map_or(false, |x| x == "json")).collect())
        .unwrap_or_default();
    regs.sort();
    let mut n_reg = 0u64;
    for p in &regs {
        match read_case::<P>(p) {
            Ok(case) => {
                n_reg += 1;
                let v = run_case::<P>(&case, &mut total);
                account(&v, || fp_json(&case), &mut total);
                if let Verdict::Fail { sig, why } = v {
                    failures.push(Failure { case, sig, why: format!("[regression {}] {why}", p.display()) });
                }
            }
            Err(e) => {
                eprintln!("unreadable regression file: {e}");
                return 2;
            }
        }
    }
    for case in P::fixed_cases() {
        n_reg += 1;
        let v = run_case::<P>(&case, &mut total);
        account(&v, || fp_json(&case), &mut total);
        if let Verdict::Fail { sig, why } = v {
            failures.push(Failure { case, sig, why: format!("[fixed case] {why}") });
        }
    }
    total.count("regression_and_fixed_cases", n_reg);

    // 2. exhaustive sub-claims
    let ex_before = total.evaluations;
    for (case, sig, why) in P::exhaustive(args.tier, &mut total) {
        failures.push(Failure { case, sig, why });
    }
    let exhaustive_evals = total.evaluations - ex_before;

    // 2b. direct deterministic stream (Miri sub-tier)
    if args.direct > 0 {
        for i in 0..args.direct {
            if let Some(case) = P::direct_case(args.seed, i) {
                let v = run_case::<P>(&case, &mut total);
                account(&v, || fp_json(&case), &mut total);
                if let Verdict::Fail { sig, why } = v {
                    failures.push(Failure { case, sig, why: format!("[direct stream] {why}") });
                    break;
                }
            }
        }
        total.count("direct_stream_cases", args.direct);
    }
    // 3. generated search
    let n_cases = if args.direct > 0 { 0 } else { args.cases_override.unwrap_or_else(|| P::cases(args.tier)) };
    let shards = if n_cases == 0 { 0 } else { args.shards.max(1) };
    let per = if shards == 0 { 0 } else { (n_cases + shards as u64 - 1) / shards as u64 };
    let idh = fingerprint(&P::ID);
    let results: Vec<(Stats, Option<Failure<P::Case>>)> = std::thread::scope(|s| {
        let hs: Vec<_> = (0..shards)
            .map(|sh| {
                let tier = args.tier;
                let seed = splitmix(args.seed ^ splitmix(idh.wrapping_add(sh as u64)));
                s.spawn(move || {
                    let st = RefCell::new(Stats::new());
                    let fail_info: RefCell<Option<(String, String)>> = RefCell::new(None);
                    let mut cfg = Config::default();
                    cfg.cases = per as u32;
                    cfg.failure_persistence = None;
                    cfg.rng_seed = RngSeed::Fixed(seed);
                    cfg.max_shrink_iters = 4000;
                    cfg.max_local_rejects = 100_000;
                    cfg.max_global_rejects = 100_000;
                    cfg.verbose = 0;
                    let mut runner = TestRunner::new(cfg);
                    let strat = P::strategy(tier);
                    let res = runner.run(&strat, |case| {
                        let mut stm = st.borrow_mut();
                        let v = run_case::<P>(&case, &mut stm);
                        account(&v, || fp_json(&case), &mut stm);
                        match v {
                            Verdict::Fail { sig, why } => {
                                stm.frozen = true;
                                *fail_info.borrow_mut() = Some((sig, why.clone()));
                                Err(TestCaseError::fail(why))
                            }
                            _ => Ok(()),
                        }
                    });
                    let fail = match res {
                        Ok(()) => None,
                        Err(TestError::Fail(_, case)) => {
                            // re-evaluate the minimal case to get its own signature / reason
                            let mut tmp = Stats::new();
                            tmp.frozen = true;
                            match run_case::<P>(&case, &mut tmp) {
                                Verdict::Fail { sig, why } => Some(Failure { case, sig, why }),
                                _ => {
                                    let (sig, why) = fail_info.borrow().clone().unwrap_or_default();
                                    Some(Failure { case, sig, why: format!("(unstable after shrinking) {why}") })
                                }
                            }
                        }
                        Err(TestError::Abort(r)) => {
                            eprintln!("proptest aborted: {r}");
                            std::process::exit(2);
                        }
                    };
                    (st.into_inner(), fail)
                })
            })
            .collect();
        hs.into_iter().map(|h| h.join().expect("shard thread")).collect()
    });
    for (st, f) in results {
        total.merge(st);
        if let Some(f) = f {
            failures.push(f);
        }
    }

    // 4. report
    let mut exit = 0;
    let mut seen = HashSet::new();
    let mut n_viol = 0;
    let mut known_hits = vec![];
    for f in &failures {
        if !seen.insert(f.sig.clone()) {
            continue;
        }
        if let Some(k) = known.iter().find(|k| k.property == P::ID && k.status == "known" && k.key == f.sig) {
            println!("KNOWN-FINDING: property={} {} ({})", P::ID, k.key, k.what);
            known_hits.push(k.key.clone());
            continue;
        }
        let path = write_replay::<P>(&f.case, &f.sig, &f.why);
        println!("failure [{}]: {}", f.sig, f.why);
        println!("VIOLATION property={} replay={}", P::ID, path.display());
        n_viol += 1;
        exit = 1;
    }

    // occurrences excluded by construction: KNOWN-FINDING when listed, VIOLATION otherwise
    let mut excluded: BTreeMap<String, u64> = BTreeMap::new();
    for (key, (n, case)) in &total.known {
        excluded.insert(key.clone(), *n);
        if let Some(k) = known.iter().find(|k| k.property == P::ID && k.status == "known" && &k.key == key) {
            println!("KNOWN-FINDING: property={} {} ({}; {} occurrences excluded from this run)", P::ID, k.key, k.what, n);
            known_hits.push(k.key.clone());
        } else {
            let body = json!({"property": P::ID, "signature": key, "why": "occurrence of a finding that known_findings.json does not list as known", "case": case});
            let dir = Path::new(VERIF_ROOT).join("replays");
            let _ = std::fs::create_dir_all(&dir);
            let s = serde_json::to_string_pretty(&body).unwrap();
            let p = dir.join(format!("{}-{:016x}.json", P::ID, fingerprint(&s)));
            let _ = std::fs::write(&p, s);
            println!("failure [{key}]: {n} occurrences of a finding that is not listed as known");
            println!("VIOLATION property={} replay={}", P::ID, p.display());
            n_viol += 1;
            exit = 1;
        }
    }
    // every listed known finding of this property is named on every run (also with 0 occurrences)
    for k in known.iter().filter(|k| k.property == P::ID && k.status == "known") {
        if !known_hits.contains(&k.key) {
            println!("KNOWN-FINDING: property={} {} ({}; 0 occurrences in this run)", P::ID, k.key, k.what);
        }
    }
    let wall = t0.elapsed().as_secs_f64();
    if args.evidence {
        let classes: BTreeMap<_, _> = total.classes.iter().collect();
        let ev = json!({
            "property_id": P::ID,
            "tier": args.tier.name(),
            "seed": args.seed,
            "level": "exploration",
            "coverage": {
                "evaluations": total.evaluations,
                "distinct_nontrivial": total.nontrivial.len(),
                "passes": total.passes,
                "rule": P::rule(),
                "samples": total.samples,
                "classes": classes,
                "trivial_or_out_of_domain": total.trivial,
                "worst_error_over_u_e": total.worst,
                "counters": total.extra,
                "exhaustive_subclaim_evaluations": exhaustive_evals,
                "generated_cases_requested": n_cases,
                "shards": shards,
                "known_findings_hit": known_hits,
                "known_finding_occurrences_excluded": excluded,
                "sub_runs": std::env::var("NDV_EXTRA_EVIDENCE").ok().and_then(|s| serde_json::from_str::<Value>(&s).ok()).unwrap_or(Value::Null),
            },
            "assumptions": P::assumptions(),
            "wall_s": wall,
            "violations": n_viol,
        });
        let dir = Path::new(VERIF_ROOT).join("evidence");
        let _ = std::fs::create_dir_all(&dir);
        let name = format!("{}.json", P::ID);
        std::fs::write(dir.join(name), serde_json::to_string_pretty(&ev).unwrap()).expect("write evidence");
    }
    println!(
        "{} {} seed={} evaluations={} passes={} distinct_nontrivial={} violations={} wall={:.1}s",
        P::ID,
        args.tier.name(),
        args.seed,
        total.evaluations,
        total.passes,
        total.nontrivial.len(),
        n_viol,
        wall
    );
    if exit == 0 && total.nontrivial.len() < 2 {
        eprintln!("harness error: fewer than 2 non-trivial cases - generator problem");
        return 2;
    }
    exit
}

/// helper for strategies: boxed
pub fn boxed<S: Strategy + 'static>(s: S) -> BoxedStrategy<S::Value> {
    s.boxed()
}
