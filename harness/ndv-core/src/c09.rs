//! C09 - power functions are correct for every exponent.

use crate::c03::run_program;
use crate::common::*;
use crate::engine::*;
use crate::prog::*;
use crate::registry::{dispatch, TyVisitor, TYPES};
use crate::types::{Flt, Ty};
use num_dual::DualNum;
use proptest::prelude::*;
use serde::{Deserialize, Serialize};

#[derive(Clone, Copy, Debug, PartialEq, Serialize, Deserialize)]
pub enum Kind {
    /// x.powi(n) against the generalized binomial Taylor data
    Powi,
    /// x.powf(n)
    Powf,
    /// x.powd(y) with a dual exponent against exp(y ln x)
    Powd,
    /// powi(n) ~ powf(n) ~ powd(const n) ~ exp(ln(x) n), x > 0
    RelAll,
    /// powi(n) ~ product of n copies, powi(-n) ~ 1/powi(n), small n
    RelProduct,
    /// powi(m+n) ~ powi(m) powi(n)
    RelAdd,
    /// sqrt ~ powf(1/2), cbrt ~ powf(1/3), recip ~ powi(-1)
    RelRoots,
}

#[derive(Clone, Debug, Serialize, Deserialize)]
pub struct Case {
    pub ty: usize,
    pub dims: (u8, u8),
    pub kind: Kind,
    /// exponent stratum + material
    pub es: u8,
    pub eu: f64,
    pub en: i32,
    /// base: t in [-30, 30] for x = exp(t/n), or free base material
    pub bt: f64,
    pub neg: bool,
    pub parts: Vec<f64>,
    pub parts2: Vec<f64>,
    pub pres: Vec<bool>,
    pub zero: Vec<bool>,
    /// real part of a dual exponent
    pub yr: f64,
}

/// integer exponent from stratum material
pub fn int_exponent(es: u8, en: i32, eu: f64) -> i32 {
    match es % 8 {
        0 | 1 => en.rem_euclid(21) - 10,
        2 => [0, 1, 2, 3][en.rem_euclid(4) as usize],
        3 => 46341 + en.rem_euclid(5) - 2,
        4 => 1291 + en.rem_euclid(5) - 2,
        5 => {
            let k = 1i32 << (en.rem_euclid(31) as u32);
            if eu < 0.5 {
                k
            } else {
                -k
            }
        }
        6 => {
            let m = (eu * (1u64 << 30) as f64) as i32;
            if en & 1 == 0 {
                m
            } else {
                -m
            }
        }
        _ => -(46341 + en.rem_euclid(5) - 2),
    }
}
fn ulps(x: f64, k: i32) -> f64 {
    f64::from_bits((x.to_bits() as i64 + k as i64) as u64)
}
/// real exponent from stratum material
pub fn real_exponent(es: u8, en: i32, eu: f64) -> f64 {
    let k = [0, 1, -1, 2, -2, 4, -4][en.rem_euclid(7) as usize];
    match es % 12 {
        // huge exponents 10^3 .. 10^300 (the caller clamps to the float type); stratum 10 is evaluated at
        // a fixed base for which the power underflows (all parts are 0 then), stratum 11 at a base ~ 1
        10 | 11 => 10f64.powf(3.0 + 297.0 * eu) * if en & 1 == 0 { 1.0 } else { -1.0 },
        0 => {
            // 0 and its neighbourhood
            // ... incl. non-zero exponents far below machine epsilon (x^n is 1 to working precision, its
            // derivative n x^(n-1) is not 0); the caller maps the f32 ones
            [0.0, f64::EPSILON, -f64::EPSILON, 5e-324, 1e-300, 1e-17, -3e-20, 0.9 * f64::EPSILON, 1e-100, -1e-8, 1e-12][en.rem_euclid(11) as usize]
        }
        1 => ulps(1.0, k),
        2 => ulps(2.0, k),
        3 => 2.0 + [1.0, -1.0, 0.5, -0.5, 3.0][en.rem_euclid(5) as usize] * f64::EPSILON,
        4 => -(0.05 + 6.0 * eu),
        5 => 0.05 + 6.0 * eu,
        6 => (en.rem_euclid(21) - 10) as f64,
        7 => 3.0 + [0.0, 1e-9, -1e-9][en.rem_euclid(3) as usize],
        8 => (10.0 + 290.0 * eu) * if en & 1 == 0 { 1.0 } else { -1.0 },
        _ => 0.5 * (en.rem_euclid(13) - 6) as f64,
    }
}

pub struct C09;
struct V<'a> {
    case: &'a Case,
    st: &'a mut Stats,
}

impl<'a> TyVisitor for V<'a> {
    type Out = Verdict;
    fn visit<T>(self, dims: &[usize]) -> Verdict
    where
        T: Ty + DualNum<<T as Ty>::F>,
    {
        let case = self.case;
        let st = self.st;
        let lay = T::layout(dims);
        let is32 = <T::F as Flt>::IS32;
        let tmax = if is32 { 8.0 } else { 30.0 };
        let t = case.bt.clamp(-1.0, 1.0) * tmax;
        // base such that x^n = e^t
        let base_for = |n: f64| -> f64 {
            let x = if n.abs() > 4.0 { (t / n).exp() } else { (t / 4.0).exp() };
            round_to::<T::F>(x)
        };
        let mut ops: Vec<Op> = vec![Op::Input(0)];
        let mut n_inputs = 1;
        let mut x0;
        let mut cross: Vec<(usize, usize)> = vec![];
        let class;
        match case.kind {
            Kind::Powi => {
                let n = int_exponent(case.es, case.en, case.eu);
                x0 = base_for(n as f64);
                if case.neg {
                    x0 = -x0;
                }
                ops.push(Op::Powi(0, n));
                class = format!("powi:{}", if n.abs() > 1000 { "huge" } else if n.abs() > 3 { "medium" } else { "special" });
                if n.abs() >= 46339 {
                    st.class("powi: |n| at or beyond the i32 overflow threshold of n(n-1)");
                }
            }
            Kind::Powf => {
                let mut n = real_exponent(case.es, case.en, case.eu);
                if is32 && n.abs() > 1e37 {
                    // huge exponents: 10^3 .. 10^37 for f32
                    n = n.signum() * 10f64.powf(3.0 + 34.0 * case.eu);
                }
                let n = if is32 { n as f32 as f64 } else { n };
                x0 = base_for(n);
                if case.es % 12 == 10 {
                    // a base whose power underflows: below 1 for positive, above 1 for negative exponents
                    let b = [0.5, 0.9, 1e-3, 0.999][(case.en.rem_euclid(8) / 2) as usize];
                    x0 = round_to::<T::F>(if n > 0.0 { b } else { 1.0 / b });
                }
                if case.es % 12 >= 10 {
                    // the Taylor coefficients C(n,k) x^(n-k), k <= order, must themselves be representable
                    let d = lay.alg().depth() as f64;
                    let lg = d * n.abs().log10() + (n - d) * x0.log10();
                    if !(lg < if is32 { 34.0 } else { 290.0 }) {
                        return Verdict::Trivial("derivative coefficient of the power not representable");
                    }
                }
                ops.push(Op::Powf(0, n));
                class = format!("powf:stratum{}", case.es % 12);
            }
            Kind::Powd => {
                x0 = round_to::<T::F>((t / 8.0).exp());
                ops.push(Op::Input(1));
                n_inputs = 2;
                ops.swap(1, 1);
                ops.push(Op::Powd(0, 1));
                class = "powd".into();
            }
            Kind::RelAll => {
                let n = (case.en.rem_euclid(25) - 12) as f64;
                x0 = base_for(n);
                ops.push(Op::Powi(0, n as i32)); // 1
                ops.push(Op::Powf(0, n)); // 2
                ops.push(Op::Const(n)); // 3
                ops.push(Op::Powd(0, 3)); // 4
                ops.push(Op::Un("ln".into(), 0)); // 5
                ops.push(Op::BinS(Bin::Mul, false, 5, n)); // 6
                ops.push(Op::Un("exp".into(), 6)); // 7
                cross = vec![(1, 2), (1, 4), (1, 7), (2, 4)];
                class = "relation: powi ~ powf ~ powd ~ exp(n ln x)".into();
            }
            Kind::RelProduct => {
                let n = case.en.rem_euclid(7) + 1;
                x0 = base_for(n as f64);
                if case.neg {
                    x0 = -x0;
                }
                ops.push(Op::Powi(0, n)); // 1
                ops.push(Op::Product(vec![0; n as usize])); // 2
                ops.push(Op::Powi(0, -n)); // 3
                ops.push(Op::Un("recip".into(), 1)); // 4
                ops.push(Op::Inv(1)); // 5
                cross = vec![(1, 2), (3, 4), (3, 5)];
                class = "relation: powi ~ repeated product, powi(-n) ~ 1/powi(n)".into();
            }
            Kind::RelAdd => {
                let m = case.en.rem_euclid(9) - 4;
                let n = (case.es as i32).rem_euclid(9) - 4;
                x0 = base_for((m + n) as f64);
                if case.neg {
                    x0 = -x0;
                }
                ops.push(Op::Powi(0, m)); // 1
                ops.push(Op::Powi(0, n)); // 2
                ops.push(Op::Bin(Bin::Mul, Form::Owned, 1, 2)); // 3
                ops.push(Op::Powi(0, m + n)); // 4
                cross = vec![(3, 4)];
                class = "relation: powi(m+n) ~ powi(m) powi(n)".into();
            }
            Kind::RelRoots => {
                x0 = round_to::<T::F>((t / 2.0).exp());
                ops.push(Op::Un("sqrt".into(), 0)); // 1
                ops.push(Op::Powf(0, 0.5)); // 2
                ops.push(Op::Un("cbrt".into(), 0)); // 3
                ops.push(Op::Powf(0, 1.0 / 3.0)); // 4
                ops.push(Op::Un("recip".into(), 0)); // 5
                ops.push(Op::Powi(0, -1)); // 6
                cross = vec![(1, 2), (3, 4), (5, 6)];
                class = "relation: sqrt ~ powf(1/2), cbrt ~ powf(1/3), recip ~ powi(-1)".into();
            }
        }
        // fix the input ordering for Powd (inputs must come first)
        let prog = if case.kind == Kind::Powd {
            Program { n_inputs: 2, ops: vec![Op::Input(0), Op::Input(1), Op::Powd(0, 1)], outs: vec![2] }
        } else {
            let n = ops.len();
            Program { n_inputs, ops, outs: vec![n - 1] }
        };
        let mut inputs = vec![make_flat::<T::F>(&lay, x0, &case.parts, &case.pres, &case.zero)];
        if prog.n_inputs == 2 {
            inputs.push(make_flat::<T::F>(&lay, case.yr.clamp(-4.0, 4.0), &case.parts2, &case.pres, &[false]));
        }
        st.class(&class);
        st.class(&format!("type:{}", TYPES[case.ty].name));
        let v = run_program::<T>(dims, &prog, &inputs, st, "C09");
        let base_nontrivial = match &v {
            Verdict::Pass { .. } => true,
            _ => return v,
        };
        // integer powers: the SIGN of the value and of every first-order part is exact in any correct
        // evaluation (products of non-zero factors), whatever the accumulated rounding of |x|^n is -
        // for |n| u > 1 (f32, |n| > 2^24) it is the only thing left to decide
        if case.kind == Kind::Powi {
            let n = int_exponent(case.es, case.en, case.eu) as i64;
            let xs: Vec<T> = inputs.iter().map(|f| T::from_flat(dims, f)).collect();
            let out = eval_lib::<T, T::F>(&prog, &xs)[prog.outs[0]].to_flat(dims);
            let sx = if x0 < 0.0 { -1.0 } else { 1.0 };
            let s0: f64 = if n % 2 == 0 { 1.0 } else { sx };
            // d/dx x^n = n x^(n-1)
            let s1: f64 = (if n < 0 { -1.0 } else { 1.0 }) * if (n - 1) % 2 == 0 { 1.0 } else { sx };
            let bad = |v: f64, want: f64| v.is_finite() && v != 0.0 && v.signum() != want;
            if n != 0 && bad(out.vals[0], s0) {
                return Verdict::Fail { sig: "C09/powi/sign".into(), why: format!("{}: powi({n}) of a base with real part {:e} has real part {:e}: wrong sign; input {}", T::tname(dims), x0, out.vals[0], flat_json(&lay, &inputs[0])) };
            }
            if n != 0 {
                for (i, s) in lay.slots.iter().enumerate() {
                    let vin = inputs[0].vals[i];
                    if s.order == 1 && lay.slot_present(i, &inputs[0].pres) && vin != 0.0 && bad(out.vals[i], s1 * vin.signum()) {
                        return Verdict::Fail { sig: "C09/powi/sign".into(), why: format!("{}: powi({n}) of a base with real part {:e}: first-order part {} = {:e} has the wrong sign; input {}", T::tname(dims), x0, s.name, out.vals[i], flat_json(&lay, &inputs[0])) };
                    }
                }
                st.count("powi_sign_checks", 1);
            }
        }
        // explicit cross agreement of the library results (each side within 32 u e of the truth)
        if !cross.is_empty() {
            let alg = lay.alg();
            let xs: Vec<T> = inputs.iter().map(|f| T::from_flat(dims, f)).collect();
            let js: Vec<_> = inputs.iter().map(|f| lay.embed(&alg, &f.vals, &f.pres)).collect();
            let rf = match eval_ref(&prog, &js, is32, lay.levels) {
                Some(r) => r,
                None => return Verdict::Trivial("reference out of domain"),
            };
            let lib = eval_lib::<T, T::F>(&prog, &xs);
            for (a, b) in cross {
                let fa = lib[a].to_flat(dims);
                let fb = lib[b].to_flat(dims);
                for (i, s) in lay.slots.iter().enumerate() {
                    let k = alg.index(&s.monos[0]);
                    let tol = K * <T::F as Flt>::U * (rf[a].c[k].e + rf[b].c[k].e) + <T::F as Flt>::FLOOR;
                    let d = (fa.vals[i] - fb.vals[i]).abs();
                    if !(d <= tol) {
                        return Verdict::Fail {
                            sig: format!("C09/disagree/{}/{}", crate::c03::op_name(&prog.ops[a]), crate::c03::op_name(&prog.ops[b])),
                            why: format!(
                                "{}: nodes n{a} and n{b} of `{}` disagree in part {}: {:e} vs {:e} (tolerance {:e}); input {}",
                                T::tname(dims),
                                render(&prog),
                                s.name,
                                fa.vals[i],
                                fb.vals[i],
                                tol,
                                flat_json(&lay, &inputs[0])
                            ),
                        };
                    }
                }
            }
            st.count("cross_agreements_checked", 1);
        }
        // non-trivial: |n| > 3 or non-integer, and order >= 2 parts present (order-1 types: non-unit part)
        let interesting_exp = match case.kind {
            Kind::Powi => int_exponent(case.es, case.en, case.eu).abs() > 3,
            Kind::Powf => {
                let n = real_exponent(case.es, case.en, case.eu);
                n.fract() != 0.0 || n.abs() > 3.0
            }
            _ => true,
        };
        let rich = if lay.max_order() >= 2 { nonzero_parts(&lay, &inputs[0], 2) >= 1 } else { nonzero_parts(&lay, &inputs[0], 1) >= 1 };
        let _ = base_nontrivial;
        Verdict::Pass { nontrivial: interesting_exp && rich }
    }
}

impl Property for C09 {
    type Case = Case;
    const ID: &'static str = "C09";
    fn strategy(_tier: Tier) -> BoxedStrategy<Case> {
        let kind = prop_oneof![
            6 => Just(Kind::Powi),
            6 => Just(Kind::Powf),
            3 => Just(Kind::Powd),
            2 => Just(Kind::RelAll),
            1 => Just(Kind::RelProduct),
            1 => Just(Kind::RelAdd),
            1 => Just(Kind::RelRoots),
        ];
        (
            (0..TYPES.len(), dims_strategy(), kind),
            (any::<u8>(), 0.0f64..1.0, any::<i32>(), -1.0f64..1.0, proptest::bool::weighted(0.3), prop_oneof![3 => -4.0f64..4.0, 1 => (-8i32..=8).prop_map(|k| k as f64 / 2.0), 1 => prop_oneof![Just(0.0f64), Just(1.0f64), Just(-1.0f64), Just(2.0f64)]]),
            (parts_pool(), parts_pool(), presence()),
        )
            .prop_map(|((ty, dims, kind), (es, eu, en, bt, neg, yr), (parts, parts2, (pres, zero)))| Case { ty, dims, kind, es, eu, en, bt, neg, parts, parts2, pres, zero, yr })
            .boxed()
    }
    fn check(case: &Case, st: &mut Stats) -> Verdict {
        if case.ty >= TYPES.len() || case.parts.is_empty() || case.parts2.is_empty() || case.pres.is_empty() || case.zero.is_empty() || !case.bt.is_finite() || !case.eu.is_finite() || !case.yr.is_finite() {
            return Verdict::Trivial("malformed case");
        }
        let dims = [case.dims.0 as usize % 7, case.dims.1 as usize % 7];
        dispatch(case.ty, &dims, V { case, st })
    }
    fn fixed_cases() -> Vec<Case> {
        // the i32 overflow thresholds of n(n-1) and n(n-1)(n-2), on second and third order types
        let mut v = vec![];
        for (ty, en_es) in [(1usize, (3u8, 2i32)), (1, (3, 3)), (2, (4, 2)), (2, (4, 3)), (4, (4, 4)), (1, (7, 2)), (2, (5, 30)), (0, (5, 30))] {
            v.push(Case {
                ty,
                dims: (0, 0),
                kind: Kind::Powi,
                es: en_es.0,
                eu: 0.25,
                en: en_es.1,
                bt: 0.3,
                neg: false,
                parts: vec![1.0, 0.5, -0.25, 2.0, 1.5, 0.75, -1.0],
                parts2: vec![1.0],
                pres: vec![true],
                zero: vec![false],
                yr: 1.0,
            });
        }
        v
    }
    fn cases(tier: Tier) -> u64 {
        match tier {
            Tier::Quick => 300_000,
            Tier::Thorough => 10_000_000,
        }
    }
    fn rule() -> String {
        "generated: (type, kind in {powi, powf, powd, 4 relation templates}, exponent from strata: powi -10..10, the special cases 0,1,2,3, the i32-overflow thresholds of n(n-1) (46341+-2) and n(n-1)(n-2) (1291+-2), +-2^k up to 2^30, random up to 2^30; powf 0 and tiny non-zero exponents (+-eps, 0.9 eps, 1e-8, 1e-12, 1e-17, 3e-20, 1e-100, 1e-300, denormal), 1, 2 each +-{1,2,4} ulp, 2 +- fractions of epsilon, +-eps, denormal, negative, non-integer, integer-valued, 3 +- 1e-9, large up to +-300, half-integers, huge +-10^3..10^300 (f32: 10^37) both at a base ~ 1 and at a fixed base 0.5/0.9/1e-3/0.999 (or its reciprocal) where the power and all its derivatives underflow to 0; base x = +-exp(t/n) with t in [-30,30] so that x^n stays representable; negative bases with integer exponents; powd with an arbitrary dual exponent). Oracle: generalized binomial Taylor data t_k = C(n,k) x^(n-k) in the reference algebra (powd: exp(y ln x)) with the rounding bound of the library's x^(n-3) x x x scheme and |n| units for repeated squaring; for powi the signs of the value and of every first-order part are checked exactly (for f32 and |n| > 2^24 the rounding bound |n| u exceeds 1 and the sign is all that can be decided); relation templates additionally compare the library results with each other (tolerance 32 u (e_a+e_b)). Non-trivial: |n| > 3 or non-integer exponent, and a part of order >= 2 is non-zero.".into()
    }
    fn assumptions() -> Vec<String> {
        vec![
            "relative errors below |n| u of integer powers with huge exponents are invisible (conditioning of repeated squaring)".into(),
            "libm pow is accurate to 1 ulp".into(),
        ]
    }
}
