//! C10 - smooth special points yield finite, correct derivatives.

use crate::common::*;
use crate::engine::*;
use crate::prog::apply_un;
use crate::registry::{dispatch, dispatch_bessel, TyVisitor, TyVisitorCopy, TYPES};
use crate::types::{Flat, Flt, Layout, Ty};
use ndv_oracle::taylor::Fun;
use ndv_oracle::Jet;
use num_dual::{BesselDual, DualNum};
use proptest::prelude::*;
use serde::{Deserialize, Serialize};
use serde_json::json;

/// the enumerated table of (function, special point) pairs
#[derive(Clone, Copy, Debug, PartialEq, Serialize, Deserialize)]
pub enum Sp {
    /// powi(n) at 0, n in 0..=8
    Powi(i32),
    /// powf(n) at 0 for integer-valued n in 0..=8
    PowfInt(i32),
    /// powf(order + frac) at 0: the smallest half-integer / quarter exponents above the order of the type
    PowfAbove(u8),
    /// sph_j{n} at 0, +-1 (switch), +-eps (old switch)
    Sph(u8, i8),
    /// bessel_j{n} at 0, +-1e-5, +-5, +-1
    Bessel(u8, i8),
    /// atan2(y, 0): y from {+1, -1, +2.5, -0.3} index
    Atan2YAxis(u8),
    /// atan2(0, x)
    Atan2XAxis(u8),
    ExpM1,
    Ln1p,
}

pub fn table() -> Vec<Sp> {
    let mut t = vec![];
    for n in 0..=8 {
        t.push(Sp::Powi(n));
        t.push(Sp::PowfInt(n));
    }
    for k in 0..4 {
        t.push(Sp::PowfAbove(k));
    }
    for n in 0..3 {
        for p in -2..=2 {
            t.push(Sp::Sph(n, p));
        }
        for p in -3..=3 {
            t.push(Sp::Bessel(n, p));
        }
    }
    for k in 0..4 {
        t.push(Sp::Atan2YAxis(k));
        t.push(Sp::Atan2XAxis(k));
    }
    t.push(Sp::ExpM1);
    t.push(Sp::Ln1p);
    t
}

#[derive(Clone, Debug, Serialize, Deserialize)]
pub struct Case {
    pub ty: usize,
    pub dims: (u8, u8),
    pub sp: Sp,
    /// offset in floats (-3..=3) from the special point; 4 = negative zero
    pub off: i8,
    pub parts: Vec<f64>,
    pub parts2: Vec<f64>,
    pub pres: Vec<bool>,
    pub zero: Vec<bool>,
}

fn step(x: f64, k: i8, is32: bool) -> f64 {
    if k == 0 {
        return x;
    }
    // offset 4: the negative zero (at special points other than 0: the point itself)
    if k == 4 {
        return if x == 0.0 { -0.0 } else { x };
    }
    if is32 {
        let mut v = x as f32;
        for _ in 0..k.unsigned_abs() {
            v = if k > 0 { next_up32(v) } else { -next_up32(-v) };
        }
        v as f64
    } else {
        let mut v = x;
        for _ in 0..k.unsigned_abs() {
            v = if k > 0 { next_up64(v) } else { -next_up64(-v) };
        }
        v
    }
}
fn next_up64(x: f64) -> f64 {
    if x == 0.0 {
        return f64::from_bits(1);
    }
    let b = x.to_bits();
    if x > 0.0 {
        f64::from_bits(b + 1)
    } else {
        f64::from_bits(b - 1)
    }
}
fn next_up32(x: f32) -> f32 {
    if x == 0.0 {
        return f32::from_bits(1);
    }
    let b = x.to_bits();
    if x > 0.0 {
        f32::from_bits(b + 1)
    } else {
        f32::from_bits(b - 1)
    }
}

pub struct C10;

fn finish<T>(dims: &[usize], lay: &Layout, fx: &Flat, lib: T, rf: Option<Jet>, what: &str, kf: &dyn Fn(u8) -> f64, st: &mut Stats) -> Verdict
where
    T: Ty + DualNum<<T as Ty>::F>,
{
    let alg = lay.alg();
    let rf = match rf {
        Some(r) if r.all_finite() => r,
        _ => return Verdict::Trivial("reference out of domain"),
    };
    let lf = lib.to_flat(dims);
    let c = compare_with::<T::F>(lay, &alg, &lf, &rf, kf, false, what);
    if let Some((sig, why)) = c.fail {
        return Verdict::Fail { sig: format!("C10/{sig}"), why: format!("{} on {}: {}; operand {}", what, T::tname(dims), why, flat_json(lay, fx)) };
    }
    st.ratio(what, c.worst);
    let top = lay.max_order() as u8;
    // non-trivial: the highest-order part is exercised with non-zero lower-order operand parts
    let nontrivial = lay.slots.iter().enumerate().any(|(i, s)| s.order >= 1 && s.order < top.max(2) && lay.slot_present(i, &fx.pres) && fx.vals[i] != 0.0) && nonzero_parts(lay, fx, 1) >= 1;
    if nontrivial && st.wants_sample() {
        st.sample(|| json!({"type": T::tname(dims), "case": what, "operand": flat_json(lay, fx), "library": flat_json(lay, &lf)}));
    }
    Verdict::Pass { nontrivial }
}

struct V<'a> {
    case: &'a Case,
    st: &'a mut Stats,
}
impl<'a> TyVisitor for V<'a> {
    type Out = Verdict;
    fn visit<T>(self, dims: &[usize]) -> Verdict
    where
        T: Ty + DualNum<<T as Ty>::F>,
    {
        let case = self.case;
        let st = self.st;
        let lay = T::layout(dims);
        let alg = lay.alg();
        ndv_oracle::ring::set_unit(<T::F as Flt>::U);
        let is32 = <T::F as Flt>::IS32;
        let order = lay.max_order();
        let kf = |_: u8| K;
        let mk = |x0: f64| make_flat::<T::F>(&lay, x0, &case.parts, &case.pres, &case.zero);
        let what;
        match case.sp {
            Sp::Powi(n) => {
                let x0 = step(0.0, case.off, is32);
                let fx = mk(x0);
                let x = T::from_flat(dims, &fx);
                let xj = lay.embed(&alg, &fx.vals, &fx.pres);
                what = format!("powi({n}) at 0{:+}", case.off);
                let rf = if x0 == 0.0 { xj.powf(n as f64, 4.0) } else { direct_power(&xj, n as f64) };
                finish::<T>(dims, &lay, &fx, x.powi(n), rf, &what, &kf, st)
            }
            Sp::PowfInt(n) => {
                // negative neighbours only make sense for integer exponents: they are included
                let x0 = step(0.0, case.off, is32);
                let fx = mk(x0);
                let x = T::from_flat(dims, &fx);
                let xj = lay.embed(&alg, &fx.vals, &fx.pres);
                what = format!("powf({n}.0) at 0{:+}", case.off);
                let rf = if x0 == 0.0 { xj.powf(n as f64, 4.0) } else { direct_power(&xj, n as f64) };
                finish::<T>(dims, &lay, &fx, x.powf(<T::F as Flt>::from64(n as f64)), rf, &what, &kf, st)
            }
            Sp::PowfAbove(k) => {
                // non-integer exponent just above the order of the type; only x >= 0
                let n = order as f64 + [0.5, 0.25, 1.5, 2.75][k as usize % 4];
                let x0 = step(0.0, case.off.abs(), is32);
                let fx = mk(x0);
                let x = T::from_flat(dims, &fx);
                let xj = lay.embed(&alg, &fx.vals, &fx.pres);
                what = format!("powf(order+{}) at 0{:+}", n - order as f64, case.off.abs());
                let rf = if x0 == 0.0 { xj.powf(n, 4.0) } else { direct_power(&xj, n) };
                finish::<T>(dims, &lay, &fx, x.powf(<T::F as Flt>::from64(n)), rf, &what, &kf, st)
            }
            Sp::Sph(n, p) => {
                let eps = if is32 { f32::EPSILON as f64 } else { f64::EPSILON };
                let pt = [-1.0, -eps, 0.0, eps, 1.0][(p + 2) as usize];
                let x0 = step(pt, case.off, is32);
                let fx = mk(x0);
                let x = T::from_flat(dims, &fx);
                let xj = lay.embed(&alg, &fx.vals, &fx.pres);
                let f = [Fun::SphJ0, Fun::SphJ1, Fun::SphJ2][n as usize % 3];
                what = format!("{} at {:e}{:+}", f.name(), pt, case.off);
                finish::<T>(dims, &lay, &fx, apply_un::<T, T::F>(f, &x), xj.apply(f), &what, &kf, st)
            }
            Sp::Atan2YAxis(k) => {
                // atan2(y, x) with x = 0 (or a neighbouring float of 0)
                let y0 = [1.0, -1.0, 2.5, -0.3][k as usize % 4];
                let x0 = step(0.0, case.off, is32);
                let fy = mk(y0);
                let fx = make_flat::<T::F>(&lay, x0, &case.parts2, &case.pres, &[false]);
                let y = T::from_flat(dims, &fy);
                let x = T::from_flat(dims, &fx);
                let yj = lay.embed(&alg, &fy.vals, &fy.pres);
                let xj = lay.embed(&alg, &fx.vals, &fx.pres);
                what = format!("atan2(y={y0}, x=0{:+})", case.off);
                finish::<T>(dims, &lay, &fy, y.atan2(x), yj.atan2(&xj), &what, &kf, st)
            }
            Sp::Atan2XAxis(k) => {
                // atan2(y, x) with y = +0 exactly (or a neighbouring float); -0 with x < 0 is the branch cut
                let x0 = [1.0, -1.0, 2.5, -0.3][k as usize % 4];
                let y0 = step(0.0, case.off, is32);
                let fy = mk(y0);
                let fx = make_flat::<T::F>(&lay, x0, &case.parts2, &case.pres, &[false]);
                let y = T::from_flat(dims, &fy);
                let x = T::from_flat(dims, &fx);
                let yj = lay.embed(&alg, &fy.vals, &fy.pres);
                let xj = lay.embed(&alg, &fx.vals, &fx.pres);
                what = format!("atan2(y=0{:+}, x={x0})", case.off);
                finish::<T>(dims, &lay, &fy, y.atan2(x), yj.atan2(&xj), &what, &kf, st)
            }
            Sp::ExpM1 | Sp::Ln1p => {
                let x0 = step(0.0, case.off, is32);
                let fx = mk(x0);
                let x = T::from_flat(dims, &fx);
                let xj = lay.embed(&alg, &fx.vals, &fx.pres);
                let f = if case.sp == Sp::ExpM1 { Fun::ExpM1 } else { Fun::Ln1p };
                what = format!("{} at 0{:+}", f.name(), case.off);
                finish::<T>(dims, &lay, &fx, apply_un::<T, T::F>(f, &x), xj.apply(f), &what, &kf, st)
            }
            Sp::Bessel(..) => Verdict::Trivial("bessel case on a type without BesselDual"),
        }
    }
}

/// reference for x^n at a denormal x0 (n a non-negative integer, or n above the order): every
/// Taylor coefficient C(n,k) x0^(n-k) is evaluated directly, because the recurrence through
/// x0^n underflows
fn direct_power(xj: &Jet, n: f64) -> Option<Jet> {
    let d = xj.alg.depth();
    let x0 = xj.c[0].v;
    let mut t = Vec::with_capacity(d + 1);
    let mut binom = 1.0f64;
    for k in 0..=d {
        if k > 0 {
            binom = binom * (n - (k as f64 - 1.0)) / k as f64;
        }
        let ex = n - k as f64;
        let v = if binom == 0.0 {
            0.0
        } else if ex == 0.0 {
            binom
        } else if ex < 0.0 {
            return None;
        } else if ex.fract() == 0.0 {
            binom * x0.powi(ex as i32)
        } else {
            binom * x0.powf(ex)
        };
        t.push(ndv_oracle::R { v, e: 8.0 * v.abs(), m: v.abs(), x: false });
    }
    Some(xj.compose(&t))
}

struct VB<'a> {
    case: &'a Case,
    st: &'a mut Stats,
}
impl<'a> TyVisitorCopy for VB<'a> {
    type Out = Verdict;
    fn visit<T>(self, dims: &[usize]) -> Verdict
    where
        T: Ty + DualNum<<T as Ty>::F> + Copy + BesselDual,
    {
        let case = self.case;
        let lay = T::layout(dims);
        let alg = lay.alg();
        ndv_oracle::ring::set_unit(<T::F as Flt>::U);
        if let Sp::Bessel(n, p) = case.sp {
            let pt = [-5.0, -1.0, -1e-5, 0.0, 1e-5, 1.0, 5.0][(p + 3) as usize];
            let x0 = step(pt, case.off, false);
            let fx = make_flat::<T::F>(&lay, x0, &case.parts, &case.pres, &case.zero);
            let x = T::from_flat(dims, &fx);
            let xj = lay.embed(&alg, &fx.vals, &fx.pres);
            let (f, lib) = match n % 3 {
                0 => (Fun::BesselJ0, x.bessel_j0()),
                1 => (Fun::BesselJ1, x.bessel_j1()),
                _ => (Fun::BesselJ2, x.bessel_j2()),
            };
            let what = format!("{} at {:e}{:+}", f.name(), pt, case.off);
            // the tolerance schedule of C14
            let kf = |o: u8| if o == 0 { 64.0 } else { crate::bessel::c14_factor(o) };
            finish::<T>(dims, &lay, &fx, lib, xj.apply(f), &what, &kf, self.st)
        } else {
            Verdict::Trivial("not a bessel case")
        }
    }
}

pub fn bessel_type_ok(ty: usize) -> bool {
    let t = &TYPES[ty];
    !t.is32 && t.copy
}

fn run_case(case: &Case, st: &mut Stats) -> Verdict {
    let dims = [case.dims.0 as usize % 7, case.dims.1 as usize % 7];
    st.class(&format!("{:?}", case.sp).split('(').next().unwrap_or("?").to_string());
    if let Sp::Bessel(..) = case.sp {
        if !bessel_type_ok(case.ty) {
            return Verdict::Trivial("bessel case on a type without BesselDual");
        }
        return dispatch_bessel(case.ty, &dims, VB { case, st });
    }
    dispatch(case.ty, &dims, V { case, st })
}

impl Property for C10 {
    type Case = Case;
    const ID: &'static str = "C10";
    fn strategy(_tier: Tier) -> BoxedStrategy<Case> {
        let tb = table();
        let n = tb.len();
        ((0..TYPES.len(), dims_strategy(), 0..n, -3i8..=4), (parts_pool(), parts_pool(), presence()))
            .prop_map(move |((mut ty, dims, sp, off), (parts, parts2, (pres, zero)))| {
                let sp = tb[sp];
                if let Sp::Bessel(..) = sp {
                    // map to a type that has BesselDual (monotone in ty)
                    let ok: Vec<usize> = (0..TYPES.len()).filter(|t| bessel_type_ok(*t)).collect();
                    ty = ok[ty * ok.len() / TYPES.len()];
                }
                Case { ty, dims, sp, off, parts, parts2, pres, zero }
            })
            .boxed()
    }
    fn check(case: &Case, st: &mut Stats) -> Verdict {
        if case.ty >= TYPES.len() || case.parts.is_empty() || case.parts2.is_empty() || case.pres.is_empty() || case.zero.is_empty() || case.off < -3 || case.off > 4 {
            return Verdict::Trivial("malformed case");
        }
        let okidx = match case.sp {
            Sp::Powi(n) | Sp::PowfInt(n) => (0..=8).contains(&n),
            Sp::Sph(n, p) => n < 3 && p.abs() <= 2,
            Sp::Bessel(n, p) => n < 3 && p.abs() <= 3,
            _ => true,
        };
        if !okidx {
            return Verdict::Trivial("malformed case");
        }
        run_case(case, st)
    }
    /// complete enumeration of the (function, special point, offset) table on the scalar types,
    /// with unit-free generic parts
    fn exhaustive(_tier: Tier, st: &mut Stats) -> Vec<(Case, String, String)> {
        let mut fails = vec![];
        let parts: Vec<f64> = vec![1.5, -0.75, 2.0, 0.625, -1.25, 3.0, -0.5, 1.0, 0.25, -2.0, 0.875, 1.75, -3.0, 0.375, 2.5, -1.5];
        let parts2: Vec<f64> = vec![-0.5, 1.25, 0.75, -2.0, 1.0, 0.5, -1.75, 2.25, 0.125, -0.875, 1.5, -1.0, 3.0, -0.25, 0.625, 2.0];
        for ty in 0..TYPES.len() {
            if TYPES[ty].kind != crate::registry::Kind::Scalar && TYPES[ty].kind != crate::registry::Kind::Nested {
                continue;
            }
            if TYPES[ty].ndyn > 0 {
                continue;
            }
            for sp in table() {
                if matches!(sp, Sp::Bessel(..)) && !bessel_type_ok(ty) {
                    continue;
                }
                for off in -3i8..=4 {
                    let case = Case { ty, dims: (2, 2), sp, off, parts: parts.clone(), parts2: parts2.clone(), pres: vec![true], zero: vec![false] };
                    let mut tmp = Stats::new();
                    tmp.frozen = true;
                    let v = run_case(&case, &mut tmp);
                    st.evaluations += 1;
                    match v {
                        Verdict::Pass { .. } => {
                            st.passes += 1;
                            st.count("exhaustive_table_points", 1);
                        }
                        Verdict::Trivial(_) => st.count("exhaustive_table_points_out_of_domain", 1),
                        Verdict::Fail { sig, why } => {
                            if fails.len() < 6 {
                                fails.push((case, sig, format!("[exhaustive table] {why}")));
                            }
                        }
                    }
                }
            }
        }
        st.class("special-point table enumerated completely on scalar and nested static types");
        fails
    }
    fn cases(tier: Tier) -> u64 {
        match tier {
            Tier::Quick => 200_000,
            Tier::Thorough => 5_000_000,
        }
    }
    fn rule() -> String {
        "the finite table of (function, special point) pairs - powi(n>=0) and integer-valued powf at 0, powf(order+frac) at 0 for the smallest non-integer exponents above the order of the type, sph_j0/1/2 at 0, +-eps, +-1, bessel_j0/1/2 at 0, +-1e-5, +-1, +-5, atan2 on either axis (both signs), exp_m1 and ln_1p at 0 - each with offsets of -3..+3 floats (denormals next to 0) and, at 0, the negative zero -0.0, is ENUMERATED COMPLETELY per run on all scalar and nested static types (counter exhaustive_table_points) and sampled with generated parts/presence patterns on every registered type. Oracle: exact Taylor data at the special point through the reference algebra; verdict = every part finite AND within 32 u e (bessel: the C14 schedule). Non-trivial: lower-order operand parts are non-zero so that the highest-order part mixes them.".into()
    }
    fn assumptions() -> Vec<String> {
        vec!["results below 1e-270 (f64) / 1e-30 (f32) in magnitude are compared with an absolute floor (gradual underflow)".into()]
    }
}
