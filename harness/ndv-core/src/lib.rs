//! ndv-core: property checks of num-dual (see /verif/DESIGN.md). Library part (shared with ndv-py and the fuzz targets).

pub mod c01;
pub mod c02;
pub mod c02x;
pub mod c03;
pub mod c04;
pub mod c05;
pub mod c06;
pub mod c07;
pub mod c08;
pub mod c09;
pub mod c10;
pub mod c11;
pub mod c12;
pub mod c13;
pub mod c16;
pub mod c18;
pub mod bessel;
pub mod bytesde;
pub mod fuzzsupport;
pub mod common;
pub mod engine;
pub mod prog;
pub mod registry;
pub mod selftest;
pub mod types;

use std::alloc::{GlobalAlloc, Layout, System};
use std::sync::atomic::AtomicBool;

/// the counting allocator is installed and active (only the `ndv` binary installs it)
pub static ALLOC_TRACKING: AtomicBool = AtomicBool::new(false);

/// Counting global allocator: live allocations / bytes per thread (the leak oracle of C13).
pub struct Counting;
unsafe impl GlobalAlloc for Counting {
    unsafe fn alloc(&self, l: Layout) -> *mut u8 {
        let p = System.alloc(l);
        if !p.is_null() {
            let _ = c13::LIVE_ALLOCS.try_with(|c| c.set(c.get() + 1));
            let _ = c13::LIVE_BYTES.try_with(|c| c.set(c.get() + l.size() as i64));
        }
        p
    }
    unsafe fn dealloc(&self, p: *mut u8, l: Layout) {
        System.dealloc(p, l);
        let _ = c13::LIVE_ALLOCS.try_with(|c| c.set(c.get() - 1));
        let _ = c13::LIVE_BYTES.try_with(|c| c.set(c.get() - l.size() as i64));
    }
    unsafe fn realloc(&self, p: *mut u8, l: Layout, new_size: usize) -> *mut u8 {
        let q = System.realloc(p, l, new_size);
        if !q.is_null() {
            let _ = c13::LIVE_BYTES.try_with(|c| c.set(c.get() + new_size as i64 - l.size() as i64));
        }
        q
    }
}

/// parse the common command line (everything after the property id)
pub fn parse_args(argv: &[String]) -> engine::Args {
    use engine::Tier;
    let mut tier = match std::env::var("VERIF_TIER").ok().as_deref() {
        Some("thorough") => Tier::Thorough,
        _ => Tier::Quick,
    };
    let mut seed: u64 = std::env::var("VERIF_SEED").ok().and_then(|s| s.trim().parse::<i64>().ok()).map(|v| v as u64).unwrap_or(20261002);
    let mut replay = None;
    let mut shards = std::thread::available_parallelism().map(|n| n.get()).unwrap_or(8).min(16);
    let mut cases_override = None;
    let mut evidence = true;
    let mut direct = 0u64;
    let mut i = 0;
    while i < argv.len() {
        match argv[i].as_str() {
            "quick" => tier = Tier::Quick,
            "thorough" => tier = Tier::Thorough,
            "--seed" => {
                i += 1;
                seed = argv[i].parse::<i64>().expect("seed") as u64;
            }
            "--replay" => {
                i += 1;
                replay = Some(std::path::PathBuf::from(&argv[i]));
            }
            "--cases" => {
                i += 1;
                cases_override = Some(argv[i].parse().expect("cases"));
            }
            "--shards" => {
                i += 1;
                shards = argv[i].parse().expect("shards");
            }
            "--direct" => {
                i += 1;
                direct = argv[i].parse().expect("direct");
            }
            "--no-evidence" => evidence = false,
            other => {
                eprintln!("unknown argument {other}");
                std::process::exit(2);
            }
        }
        i += 1;
    }
    engine::Args { tier, seed, replay, shards, cases_override, evidence, direct }
}
