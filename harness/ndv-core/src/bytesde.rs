//! A total serde `Deserializer` over raw bytes (the "data provider" layer of the fuzz targets):
//! every byte string decodes to a structurally valid case; when the bytes run out, zeros are used.
//! Floats are decoded domain-aware (mostly moderate values, unit-interval values, dyadics, a few
//! specials) so that the fuzzer reaches the oracles instead of dying in input validation.

use serde::de::{self, DeserializeSeed, EnumAccess, IntoDeserializer, MapAccess, SeqAccess, VariantAccess, Visitor};
use std::fmt;

#[derive(Debug)]
pub struct Error(String);
impl fmt::Display for Error {
    fn fmt(&self, f: &mut fmt::Formatter) -> fmt::Result {
        write!(f, "{}", self.0)
    }
}
impl std::error::Error for Error {}
impl de::Error for Error {
    fn custom<T: fmt::Display>(msg: T) -> Self {
        Error(msg.to_string())
    }
}

pub struct BytesDe<'a> {
    data: &'a [u8],
    pos: usize,
    /// name of the field currently decoded (floats named `u`, `eu`, `pv`... are unit-interval values)
    field: &'static str,
}

impl<'a> BytesDe<'a> {
    pub fn new(data: &'a [u8]) -> Self {
        BytesDe { data, pos: 0, field: "" }
    }
    fn byte(&mut self) -> u8 {
        let b = self.data.get(self.pos).copied().unwrap_or(0);
        self.pos += 1;
        b
    }
    fn uint(&mut self, n: usize) -> u64 {
        let mut v = 0u64;
        for i in 0..n {
            v |= (self.byte() as u64) << (8 * i);
        }
        v
    }
    fn float(&mut self) -> f64 {
        let sel = self.byte();
        let raw = self.uint(3) as f64;
        let unit = raw / 16777216.0; // [0,1)
        // fields that are fractions by contract
        if matches!(self.field, "u" | "u2" | "eu" | "angles" | "sv") {
            return unit;
        }
        if matches!(self.field, "k" | "bt") {
            return unit * 2.0 - 1.0;
        }
        match sel {
            0..=159 => (unit * 2.0 - 1.0) * 4.0,
            160..=199 => unit,
            200..=229 => ((raw as i64 % 65) - 32) as f64 / 8.0,
            230..=245 => {
                let m = 10f64.powf(-3.0 + 6.0 * unit);
                if sel & 1 == 0 {
                    m
                } else {
                    -m
                }
            }
            246 => 0.0,
            247 => -0.0,
            248 => 1.0,
            249 => -1.0,
            250 => 1e-12,
            251 => 1e3,
            252 => 0.5,
            253 => 2.0,
            254 => -2.5,
            _ => 3.0,
        }
    }
}

pub fn from_bytes<'a, T: de::Deserialize<'a>>(data: &'a [u8]) -> Result<T, Error> {
    let mut d = BytesDe::new(data);
    T::deserialize(&mut d)
}

macro_rules! int {
    ($m:ident, $v:ident, $t:ty, $n:expr) => {
        fn $m<V: Visitor<'de>>(self, visitor: V) -> Result<V::Value, Error> {
            let x = self.uint($n);
            visitor.$v(x as $t)
        }
    };
}

impl<'de, 'a, 'b> de::Deserializer<'de> for &'b mut BytesDe<'a> {
    type Error = Error;
    fn deserialize_any<V: Visitor<'de>>(self, _: V) -> Result<V::Value, Error> {
        Err(Error("deserialize_any is not supported".into()))
    }
    fn deserialize_bool<V: Visitor<'de>>(self, visitor: V) -> Result<V::Value, Error> {
        let b = self.byte();
        visitor.visit_bool(b & 1 == 1)
    }
    int!(deserialize_i8, visit_i8, i8, 1);
    int!(deserialize_i16, visit_i16, i16, 2);
    int!(deserialize_i32, visit_i32, i32, 4);
    int!(deserialize_i64, visit_i64, i64, 8);
    int!(deserialize_u8, visit_u8, u8, 1);
    int!(deserialize_u16, visit_u16, u16, 2);
    int!(deserialize_u32, visit_u32, u32, 4);
    int!(deserialize_u64, visit_u64, u64, 8);
    fn deserialize_f32<V: Visitor<'de>>(self, visitor: V) -> Result<V::Value, Error> {
        let x = self.float();
        visitor.visit_f32(x as f32)
    }
    fn deserialize_f64<V: Visitor<'de>>(self, visitor: V) -> Result<V::Value, Error> {
        let x = self.float();
        visitor.visit_f64(x)
    }
    fn deserialize_char<V: Visitor<'de>>(self, visitor: V) -> Result<V::Value, Error> {
        let b = self.byte();
        visitor.visit_char((b'a' + b % 26) as char)
    }
    fn deserialize_str<V: Visitor<'de>>(self, visitor: V) -> Result<V::Value, Error> {
        self.deserialize_string(visitor)
    }
    fn deserialize_string<V: Visitor<'de>>(self, visitor: V) -> Result<V::Value, Error> {
        let n = self.byte() % 12;
        let s: String = (0..n).map(|_| (b'a' + self.byte() % 26) as char).collect();
        visitor.visit_string(s)
    }
    fn deserialize_bytes<V: Visitor<'de>>(self, visitor: V) -> Result<V::Value, Error> {
        let n = self.byte() % 16;
        let v: Vec<u8> = (0..n).map(|_| self.byte()).collect();
        visitor.visit_byte_buf(v)
    }
    fn deserialize_byte_buf<V: Visitor<'de>>(self, visitor: V) -> Result<V::Value, Error> {
        self.deserialize_bytes(visitor)
    }
    fn deserialize_option<V: Visitor<'de>>(self, visitor: V) -> Result<V::Value, Error> {
        if self.byte() % 4 == 0 {
            visitor.visit_some(self)
        } else {
            visitor.visit_none()
        }
    }
    fn deserialize_unit<V: Visitor<'de>>(self, visitor: V) -> Result<V::Value, Error> {
        visitor.visit_unit()
    }
    fn deserialize_unit_struct<V: Visitor<'de>>(self, _: &'static str, visitor: V) -> Result<V::Value, Error> {
        visitor.visit_unit()
    }
    fn deserialize_newtype_struct<V: Visitor<'de>>(self, _: &'static str, visitor: V) -> Result<V::Value, Error> {
        visitor.visit_newtype_struct(self)
    }
    fn deserialize_seq<V: Visitor<'de>>(self, visitor: V) -> Result<V::Value, Error> {
        // 1..=24 elements (never empty: the checks index their pools modulo the length)
        let n = 1 + (self.byte() % 24) as usize;
        visitor.visit_seq(Seq { de: self, left: n })
    }
    fn deserialize_tuple<V: Visitor<'de>>(self, len: usize, visitor: V) -> Result<V::Value, Error> {
        visitor.visit_seq(Seq { de: self, left: len })
    }
    fn deserialize_tuple_struct<V: Visitor<'de>>(self, _: &'static str, len: usize, visitor: V) -> Result<V::Value, Error> {
        visitor.visit_seq(Seq { de: self, left: len })
    }
    fn deserialize_map<V: Visitor<'de>>(self, _: V) -> Result<V::Value, Error> {
        Err(Error("maps are not supported".into()))
    }
    fn deserialize_struct<V: Visitor<'de>>(self, _: &'static str, fields: &'static [&'static str], visitor: V) -> Result<V::Value, Error> {
        visitor.visit_map(Fields { de: self, fields, idx: 0 })
    }
    fn deserialize_enum<V: Visitor<'de>>(self, _: &'static str, variants: &'static [&'static str], visitor: V) -> Result<V::Value, Error> {
        let k = self.byte() as usize % variants.len().max(1);
        visitor.visit_enum(Enum { de: self, idx: k as u32 })
    }
    fn deserialize_identifier<V: Visitor<'de>>(self, _: V) -> Result<V::Value, Error> {
        Err(Error("identifiers are not supported".into()))
    }
    fn deserialize_ignored_any<V: Visitor<'de>>(self, visitor: V) -> Result<V::Value, Error> {
        visitor.visit_unit()
    }
}

struct Seq<'b, 'a> {
    de: &'b mut BytesDe<'a>,
    left: usize,
}
impl<'de, 'a, 'b> SeqAccess<'de> for Seq<'b, 'a> {
    type Error = Error;
    fn next_element_seed<T: DeserializeSeed<'de>>(&mut self, seed: T) -> Result<Option<T::Value>, Error> {
        if self.left == 0 {
            return Ok(None);
        }
        self.left -= 1;
        seed.deserialize(&mut *self.de).map(Some)
    }
}

struct Fields<'b, 'a> {
    de: &'b mut BytesDe<'a>,
    fields: &'static [&'static str],
    idx: usize,
}
impl<'de, 'a, 'b> MapAccess<'de> for Fields<'b, 'a> {
    type Error = Error;
    fn next_key_seed<K: DeserializeSeed<'de>>(&mut self, seed: K) -> Result<Option<K::Value>, Error> {
        if self.idx >= self.fields.len() {
            return Ok(None);
        }
        let name = self.fields[self.idx];
        self.de.field = name;
        seed.deserialize(name.into_deserializer()).map(Some)
    }
    fn next_value_seed<V: DeserializeSeed<'de>>(&mut self, seed: V) -> Result<V::Value, Error> {
        let name = self.fields[self.idx];
        self.idx += 1;
        let saved = self.de.field;
        self.de.field = name;
        let r = seed.deserialize(&mut *self.de);
        self.de.field = saved;
        r
    }
}

struct Enum<'b, 'a> {
    de: &'b mut BytesDe<'a>,
    idx: u32,
}
impl<'de, 'a, 'b> EnumAccess<'de> for Enum<'b, 'a> {
    type Error = Error;
    type Variant = Self;
    fn variant_seed<V: DeserializeSeed<'de>>(self, seed: V) -> Result<(V::Value, Self), Error> {
        let v = seed.deserialize(self.idx.into_deserializer())?;
        Ok((v, self))
    }
}
impl<'de, 'a, 'b> VariantAccess<'de> for Enum<'b, 'a> {
    type Error = Error;
    fn unit_variant(self) -> Result<(), Error> {
        Ok(())
    }
    fn newtype_variant_seed<T: DeserializeSeed<'de>>(self, seed: T) -> Result<T::Value, Error> {
        seed.deserialize(self.de)
    }
    fn tuple_variant<V: Visitor<'de>>(self, len: usize, visitor: V) -> Result<V::Value, Error> {
        visitor.visit_seq(Seq { de: self.de, left: len })
    }
    fn struct_variant<V: Visitor<'de>>(self, fields: &'static [&'static str], visitor: V) -> Result<V::Value, Error> {
        visitor.visit_map(Fields { de: self.de, fields, idx: 0 })
    }
}
