//! C04 - all number types, nestings and storage variants agree on shared derivatives.

use crate::c03;
use crate::common::*;
use crate::engine::*;
use crate::prog::*;
use crate::registry::{dispatch, TyVisitor, TYPES};
use crate::types::{Flat, Flt, Layout, Ty};
use ndv_oracle::{Jet, Mono, R};
use num_dual::DualNum;
use proptest::prelude::*;
use serde::{Deserialize, Serialize};
use serde_json::json;
use std::collections::HashMap;

#[derive(Clone, Debug, Serialize, Deserialize)]
pub struct Case {
    pub prog: c03::Case,
    /// picks the partner type among the compatible ones
    pub pick: u16,
    /// generator selection per group for restriction pairs
    pub sel: Vec<u8>,
    /// the same partial derivatives through different driver functions / number types
    #[serde(default)]
    pub drv: Option<DrvAgree>,
}

#[derive(Clone, Debug, Serialize, Deserialize)]
pub struct DrvAgree {
    pub n: u8,
    pub idx: (u8, u8, u8),
    pub x: Vec<f64>,
    pub raw: Vec<RawOp>,
    pub dynamic: bool,
}

pub struct C04;

/// The partial derivatives f, f_i, f_j, f_k, f_ij, f_ik, f_jk, f_ijk of one generated function R^n -> R
/// obtained through every route the crate offers: third_partial_derivative_vec (HyperHyperDual seeded
/// by the driver), a HyperHyperDual seeded by hand, triply nested Dual, Dual3 / third_derivative and
/// Dual2 / second_derivative (all directions on one variable), HyperDual / second_partial_derivative,
/// Dual2Vec / hessian, HyperDualVec / partial_hessian, DualVec / gradient (static and dynamic storage)
/// and Dual / first_derivative. All routes must agree with each other within 2*32 u e and with the
/// reference algebra.
fn driver_agreement(d: &DrvAgree, st: &mut Stats) -> Verdict {
    use nalgebra::{DVector, SVector};
    use num_dual::*;
    ndv_oracle::ring::set_unit(<f64 as Flt>::U);
    let n = 1 + d.n as usize % 3;
    let (i, j, k) = (d.idx.0 as usize % n, d.idx.1 as usize % n, d.idx.2 as usize % n);
    let x: Vec<f64> = (0..n).map(|l| d.x[l % d.x.len()] + 0.125 * (l / d.x.len()) as f64).collect();
    let (prog, _) = resolve(&x, &d.raw, 1);
    let out = prog.outs[0];
    // reference: three generator groups of size one, seeded like third_partial_derivative_vec
    let m3 = |a: usize, b: usize, c: usize| crate::c05::mono(3, &[(0, a), (1, b), (2, c)]);
    let mut seeds: Vec<Vec<Mono>> = vec![vec![]; n];
    seeds[i].push(m3(1, 0, 0));
    seeds[j].push(m3(0, 1, 0));
    seeds[k].push(m3(0, 0, 1));
    let (alg, rf) = match crate::c05::ref_eval(&prog, &[1, 1, 1], &x, &seeds, &[]) {
        Some(r) => r,
        None => return Verdict::Trivial("reference out of domain"),
    };
    if max_mag(&rf) > 1e250 {
        return Verdict::Trivial("magnitude out of range of the float type");
    }
    let names = ["f", "f_i", "f_j", "f_k", "f_ij", "f_ik", "f_jk", "f_ijk"];
    let monos = [m3(0, 0, 0), m3(1, 0, 0), m3(0, 1, 0), m3(0, 0, 1), m3(1, 1, 0), m3(1, 0, 1), m3(0, 1, 1), m3(1, 1, 1)];
    let want: Vec<R> = monos.iter().map(|m| rf[out].c[alg.index(m)]).collect();
    if want.iter().any(|r| !r.is_finite()) {
        return Verdict::Trivial("reference out of domain");
    }
    let u = <f64 as Flt>::U;
    let what = format!("f = {} at {:?}, (i, j, k) = ({i}, {j}, {k})", render(&prog), x);
    // route 0: the driver
    let f_hhd = |xs: &[HyperHyperDual64]| eval_lib::<HyperHyperDual64, f64>(&prog, xs)[out];
    let t = third_partial_derivative_vec(f_hhd, &x, i, j, k);
    let base = [t.0, t.1, t.2, t.3, t.4, t.5, t.6, t.7];
    let mut routes = 0u64;
    let mut cmp = |route: &str, got: &[(usize, f64)]| -> Option<Verdict> {
        for (slot, v) in got {
            let r = want[*slot];
            let tol = 2.0 * K * u * r.e + <f64 as Flt>::FLOOR;
            if !((v - base[*slot]).abs() <= tol) {
                return Some(Verdict::Fail {
                    sig: format!("C04/driver-routes/{}", route.split(' ').next().unwrap_or(route)),
                    why: format!("{} = {:e} through {route} but {:e} through third_partial_derivative_vec (reference {:e}, tolerance {:e}); {what}", names[*slot], v, base[*slot], r.v, tol),
                });
            }
        }
        None
    };
    // the driver against the reference
    for s in 0..8 {
        let r = want[s];
        if !((base[s] - r.v).abs() <= K * u * r.e + <f64 as Flt>::FLOOR) {
            return Verdict::Fail {
                sig: "C04/driver-routes/reference".into(),
                why: format!("{} = {:e} through third_partial_derivative_vec but the reference value is {:e}; {what}", names[s], base[s], r.v),
            };
        }
    }
    macro_rules! route {
        ($name:expr, $got:expr) => {
            routes += 1;
            if let Some(v) = cmp($name, &$got) {
                return v;
            }
        };
    }
    // route 1: HyperHyperDual seeded by hand
    {
        let xs: Vec<HyperHyperDual64> = (0..n)
            .map(|l| {
                let mut v = HyperHyperDual64::from_re(x[l]);
                if l == i {
                    v.eps1 = 1.0;
                }
                if l == j {
                    v.eps2 = 1.0;
                }
                if l == k {
                    v.eps3 = 1.0;
                }
                v
            })
            .collect();
        let r = f_hhd(&xs);
        route!("HyperHyperDual seeded by hand", [(0, r.re), (1, r.eps1), (2, r.eps2), (3, r.eps3), (4, r.eps1eps2), (5, r.eps1eps3), (6, r.eps2eps3), (7, r.eps1eps2eps3)]);
    }
    // route 2: triply nested first-order numbers
    {
        type D3 = Dual<Dual<Dual64, f64>, f64>;
        let b = |c: bool| if c { 1.0 } else { 0.0 };
        let xs: Vec<D3> = (0..n).map(|l| Dual::new(Dual::new(Dual64::new(x[l], b(l == k)), Dual64::new(b(l == j), 0.0)), Dual::new(Dual64::new(b(l == i), 0.0), Dual64::new(0.0, 0.0)))).collect();
        let r = eval_lib::<D3, f64>(&prog, &xs)[out];
        route!("Dual<Dual<Dual64>> seeded by hand", [(0, r.re.re.re), (1, r.eps.re.re), (2, r.re.eps.re), (3, r.re.re.eps), (4, r.eps.eps.re), (5, r.eps.re.eps), (6, r.re.eps.eps), (7, r.eps.eps.eps)]);
    }
    // all directions on one variable: Dual3 / third_derivative, Dual2 / second_derivative
    let with = |l: usize, v: f64| -> Vec<f64> {
        let mut y = x.clone();
        y[l] = v;
        y
    };
    if i == j && j == k {
        let r = third_derivative(
            |t: Dual3_64| {
                let xs: Vec<Dual3_64> = (0..n).map(|l| if l == i { t } else { Dual3_64::from_re(x[l]) }).collect();
                eval_lib::<Dual3_64, f64>(&prog, &xs)[out]
            },
            x[i],
        );
        route!("third_derivative (Dual3)", [(0, r.0), (1, r.1), (4, r.2), (7, r.3)]);
        st.class("routes: all three directions on one variable (Dual3 ~ HyperHyperDual ~ nested)");
    }
    // second order: pairs (a, b) of the three directions with their slots
    for (a, b, sa, sb, sab) in [(i, j, 1usize, 2usize, 4usize), (i, k, 1, 3, 5), (j, k, 2, 3, 6)] {
        if a == b {
            let r = second_derivative(
                |t: Dual2_64| {
                    let xs: Vec<Dual2_64> = (0..n).map(|l| if l == a { t } else { Dual2_64::from_re(x[l]) }).collect();
                    eval_lib::<Dual2_64, f64>(&prog, &xs)[out]
                },
                x[a],
            );
            route!("second_derivative (Dual2)", [(0, r.0), (sa, r.1), (sab, r.2)]);
        } else {
            let r = second_partial_derivative(
                |s: HyperDual64, t: HyperDual64| {
                    let xs: Vec<HyperDual64> = (0..n).map(|l| if l == a { s } else if l == b { t } else { HyperDual64::from_re(x[l]) }).collect();
                    eval_lib::<HyperDual64, f64>(&prog, &xs)[out]
                },
                x[a],
                x[b],
            );
            route!("second_partial_derivative (HyperDual)", [(0, r.0), (sa, r.1), (sb, r.2), (sab, r.3)]);
            // partial_hessian with x = (x_a), y = (x_b)
            let r = partial_hessian(
                |s: SVector<HyperDualVec64<nalgebra::U1, nalgebra::U1>, 1>, t: SVector<HyperDualVec64<nalgebra::U1, nalgebra::U1>, 1>| {
                    let xs: Vec<_> = (0..n).map(|l| if l == a { s[0].clone() } else if l == b { t[0].clone() } else { HyperDualVec64::from_re(x[l]) }).collect();
                    eval_lib::<HyperDualVec64<nalgebra::U1, nalgebra::U1>, f64>(&prog, &xs)[out].clone()
                },
                SVector::<f64, 1>::from([x[a]]),
                SVector::<f64, 1>::from([x[b]]),
            );
            route!("partial_hessian (HyperDualVec<1,1>)", [(0, r.0), (sa, r.1[0]), (sb, r.2[0]), (sab, r.3[(0, 0)])]);
        }
        // hessian over all variables
        let (v, g, h) = if d.dynamic {
            let r = hessian(|xs: DVector<Dual2Vec64<nalgebra::Dyn>>| eval_lib::<Dual2Vec64<nalgebra::Dyn>, f64>(&prog, xs.as_slice())[out].clone(), DVector::from_vec(x.clone()));
            (r.0, r.1.as_slice().to_vec(), (0..n).map(|p| (0..n).map(|q| r.2[(p, q)]).collect::<Vec<_>>()).collect::<Vec<_>>())
        } else {
            macro_rules! hs {
                ($n:literal) => {{
                    let r = hessian(|xs: SVector<Dual2Vec64<nalgebra::Const<$n>>, $n>| eval_lib::<Dual2Vec64<nalgebra::Const<$n>>, f64>(&prog, xs.as_slice())[out].clone(), SVector::<f64, $n>::from_column_slice(&x));
                    (r.0, r.1.as_slice().to_vec(), (0..n).map(|p| (0..n).map(|q| r.2[(p, q)]).collect::<Vec<_>>()).collect::<Vec<_>>())
                }};
            }
            match n {
                1 => hs!(1),
                2 => hs!(2),
                _ => hs!(3),
            }
        };
        route!(if d.dynamic { "hessian (Dual2Vec dynamic)" } else { "hessian (Dual2Vec static)" }, [(0, v), (sa, g[a]), (sb, g[b]), (sab, h[a][b]), (sab, h[b][a])]);
    }
    // first order: gradient and first_derivative
    {
        let (v, g) = if d.dynamic {
            let r = gradient(|xs: DVector<DualVec64<nalgebra::Dyn>>| eval_lib::<DualVec64<nalgebra::Dyn>, f64>(&prog, xs.as_slice())[out].clone(), DVector::from_vec(x.clone()));
            (r.0, r.1.as_slice().to_vec())
        } else {
            macro_rules! gr {
                ($n:literal) => {{
                    let r = gradient(|xs: SVector<DualVec64<nalgebra::Const<$n>>, $n>| eval_lib::<DualVec64<nalgebra::Const<$n>>, f64>(&prog, xs.as_slice())[out].clone(), SVector::<f64, $n>::from_column_slice(&x));
                    (r.0, r.1.as_slice().to_vec())
                }};
            }
            match n {
                1 => gr!(1),
                2 => gr!(2),
                _ => gr!(3),
            }
        };
        route!(if d.dynamic { "gradient (DualVec dynamic)" } else { "gradient (DualVec static)" }, [(0, v), (1, g[i]), (2, g[j]), (3, g[k])]);
        for (a, sa) in [(i, 1usize), (j, 2), (k, 3)] {
            let r = first_derivative(
                |t: Dual64| {
                    let xs: Vec<Dual64> = with(a, 0.0).iter().enumerate().map(|(l, v)| if l == a { t } else { Dual64::from_re(*v) }).collect();
                    eval_lib::<Dual64, f64>(&prog, &xs)[out]
                },
                x[a],
            );
            route!("first_derivative (Dual)", [(0, r.0), (sa, r.1)]);
        }
    }
    st.count("driver_routes_compared", routes);
    st.class("relation:driver routes");
    st.class(&format!("driver routes: index pattern {}", if i == j && j == k { "(v,v,v)" } else if i == j || j == k || i == k { "two equal" } else { "all distinct" }));
    let nontrivial = want[7].v != 0.0 || want[4].v != 0.0;
    if nontrivial && st.wants_sample() {
        st.sample(|| json!({"relation": "driver routes", "function": render(&prog), "point": x, "indices": [i, j, k], "partials": base, "routes": routes}));
    }
    Verdict::Pass { nontrivial }
}

struct VLayout;
impl TyVisitor for VLayout {
    type Out = (Layout, bool, usize);
    fn visit<T>(self, dims: &[usize]) -> Self::Out
    where
        T: Ty + DualNum<<T as Ty>::F>,
    {
        (T::layout(dims), <T::F as Flt>::IS32, <T as DualNum<T::F>>::NDERIV)
    }
}
pub fn layout_of(tid: usize, dims: &[usize]) -> (Layout, bool, usize) {
    dispatch(tid, dims, VLayout)
}

struct VEval<'a> {
    prog: &'a Program,
    inputs: &'a [Flat],
}
impl<'a> TyVisitor for VEval<'a> {
    type Out = Vec<Flat>;
    fn visit<T>(self, dims: &[usize]) -> Vec<Flat>
    where
        T: Ty + DualNum<<T as Ty>::F>,
    {
        let xs: Vec<T> = self.inputs.iter().map(|f| T::from_flat(dims, f)).collect();
        eval_lib::<T, T::F>(self.prog, &xs).iter().map(|v| v.to_flat(dims)).collect()
    }
}
/// type-erased library evaluation
pub fn eval_flat(tid: usize, dims: &[usize], prog: &Program, inputs: &[Flat]) -> Vec<Flat> {
    dispatch(tid, dims, VEval { prog, inputs })
}

fn groups_of(tid: usize, dims: &[usize]) -> Vec<usize> {
    layout_of(tid, dims).0.groups
}

/// partner candidates of (a, dims): (type id, dims, restriction?)
fn candidates(a: usize, dims: &[usize]) -> Vec<(usize, [usize; 2], bool)> {
    let ga = groups_of(a, dims);
    let mut out = vec![];
    for b in 0..TYPES.len() {
        let db: [usize; 2] = match TYPES[b].ndyn {
            0 => [dims[0], dims[1]],
            1 => [ga.first().copied().unwrap_or(1), 0],
            _ => [ga.first().copied().unwrap_or(1), ga.get(1).copied().unwrap_or(1)],
        };
        let gb = groups_of(b, &db);
        if gb == ga {
            if b != a || db[..] != dims[..2] {
                out.push((b, db, false));
            }
        } else if gb.len() == ga.len() && gb.iter().all(|g| *g == 1) && ga.iter().all(|g| *g >= 1) && ga.iter().any(|g| *g > 1) {
            out.push((b, db, true));
        }
    }
    out
}

/// value of slot s of a layout read from a jet through a mono map; None if the symmetric copies disagree
fn project(lay: &Layout, jet: &Jet, map: &dyn Fn(&Mono) -> Mono) -> Option<Flat> {
    let mut vals = Vec::with_capacity(lay.slots.len());
    for s in &lay.slots {
        let v0 = jet.c[jet.alg.index(&map(&s.monos[0]))].v;
        for m in &s.monos[1..] {
            if jet.c[jet.alg.index(&map(m))].v != v0 {
                return None;
            }
        }
        vals.push(v0);
    }
    Some(Flat { vals, pres: vec![true; lay.blocks.len()] })
}

fn check_pair(case: &Case, st: &mut Stats) -> Verdict {
    let pc = &case.prog;
    let a = pc.ty;
    let dims_a = [pc.dims.0 as usize % 7, pc.dims.1 as usize % 7];
    let cands = candidates(a, &dims_a);
    if cands.is_empty() {
        return Verdict::Trivial("no partner type exposes the same derivatives");
    }
    let (b, dims_b, restrict) = cands[(case.pick as usize * cands.len()) >> 16];
    let (lay_a, a32, _) = layout_of(a, &dims_a);
    let (lay_b, b32, _) = layout_of(b, &dims_b);
    let alg_a = lay_a.alg();
    let any32 = a32 || b32;
    let u = if any32 { <f32 as Flt>::U } else { <f64 as Flt>::U };
    let floor = if any32 { <f32 as Flt>::FLOOR } else { <f64 as Flt>::FLOOR };
    ndv_oracle::ring::set_unit(u);
    // mono map from B's algebra into A's
    let ga = lay_a.groups.clone();
    // half of the restriction cases use the same direction in every group (needed by partners with symmetric parts)
    let sel: Vec<u8> = (0..ga.len()).map(|g| (case.sel[if case.pick & 1 == 1 { 0 } else { g % case.sel.len() }] as usize % ga[g].max(1)) as u8 + 1).collect();
    let sel2 = sel.clone();
    let map = move |m: &Mono| -> Mono {
        if restrict {
            m.iter().enumerate().map(|(g, d)| if *d == 0 { 0 } else { sel2[g] }).collect()
        } else {
            m.clone()
        }
    };
    let r32 = |x: f64| if any32 { x as f32 as f64 } else { x };
    let xr: Vec<f64> = pc.x.iter().map(|x| r32(*x)).collect();
    let (prog, _) = resolve(&xr, &pc.raw, 1);
    // inputs: generated for A, projected to B; else generated for B and lifted to A; else symmetric by degree
    let mut in_a: Vec<Flat> = vec![];
    let mut in_b: Vec<Flat> = vec![];
    let mut mode = "A->B";
    for (i, x) in xr.iter().enumerate() {
        let pool: Vec<f64> = pc.parts[i % pc.parts.len()].iter().map(|v| r32(*v)).collect();
        let fa = if a32 { make_flat::<f32>(&lay_a, *x, &pool, &pc.pres[i % pc.pres.len()], &pc.zero) } else { make_flat::<f64>(&lay_a, *x, &pool, &pc.pres[i % pc.pres.len()], &pc.zero) };
        let ja = lay_a.embed(&alg_a, &fa.vals, &fa.pres);
        if let Some(fb) = project(&lay_b, &ja, &map) {
            in_a.push(fa);
            in_b.push(fb);
            continue;
        }
        // generated for B and lifted to A (same algebra only)
        if !restrict {
            let fb = if b32 { make_flat::<f32>(&lay_b, *x, &pool, &pc.pres[i % pc.pres.len()], &pc.zero) } else { make_flat::<f64>(&lay_b, *x, &pool, &pc.pres[i % pc.pres.len()], &pc.zero) };
            let jb = lay_b.embed(&alg_a, &fb.vals, &fb.pres);
            let ident = |m: &Mono| m.clone();
            if let Some(fa2) = project(&lay_a, &jb, &ident) {
                mode = "B->A";
                in_a.push(fa2);
                in_b.push(fb);
                continue;
            }
        }
        // symmetric by degree: every monomial of degree k carries the same coefficient p_k
        // (representable by every type whose groups all have size one)
        if ga.iter().all(|g| *g == 1) && !restrict {
            mode = "symmetric-by-degree";
            let mut j = Jet::zero(&alg_a);
            for (k, m) in alg_a.monos.iter().enumerate() {
                let deg = m.iter().filter(|d| **d != 0).count();
                j.c[k] = R::exact(if deg == 0 { *x } else { pool[(deg - 1) % pool.len()] });
            }
            let ident = |m: &Mono| m.clone();
            match (project(&lay_a, &j, &ident), project(&lay_b, &j, &ident)) {
                (Some(fa), Some(fb)) => {
                    in_a.push(fa);
                    in_b.push(fb);
                    continue;
                }
                _ => return Verdict::Trivial("no common representable input"),
            }
        }
        return Verdict::Trivial("no common representable input");
    }
    let ja: Vec<Jet> = in_a.iter().map(|f| lay_a.embed(&alg_a, &f.vals, &f.pres)).collect();
    let rf = match eval_ref(&prog, &ja, any32, lay_a.levels.max(lay_b.levels)) {
        Some(r) => r,
        None => return Verdict::Trivial("reference out of domain"),
    };
    if max_mag(&rf) > if any32 { 1e30 } else { 1e250 } {
        return Verdict::Trivial("magnitude out of range of the float type");
    }
    let ra = eval_flat(a, &dims_a, &prog, &in_a);
    let rb = eval_flat(b, &dims_b, &prog, &in_b);
    // index of A's slots by monomial
    let mut by_mono: HashMap<Mono, usize> = HashMap::new();
    for (i, s) in lay_a.slots.iter().enumerate() {
        for m in &s.monos {
            by_mono.insert(m.clone(), i);
        }
    }
    let mut compared = 0u64;
    let mut identical = 0u64;
    let mut high = false;
    for n in prog.n_inputs..prog.ops.len() {
        for (sb, slot_b) in lay_b.slots.iter().enumerate() {
            let ma = map(&slot_b.monos[0]);
            let sa = match by_mono.get(&ma) {
                Some(s) => *s,
                None => continue,
            };
            let (va, vb) = (ra[n].vals[sa], rb[n].vals[sb]);
            let r = rf[n].c[alg_a.index(&ma)];
            if !r.is_finite() {
                return Verdict::Trivial("reference out of domain");
            }
            let tol = 2.0 * K * u * r.e + floor;
            compared += 1;
            if va.to_bits() == vb.to_bits() {
                identical += 1;
            }
            if !((va - vb).abs() <= tol) {
                return Verdict::Fail {
                    sig: format!("C04/disagree/{}/order{}", c03::op_name(&prog.ops[n]), slot_b.order),
                    why: format!(
                        "{} and {} disagree on node n{n} of `{}`: {}.{} = {:e} but {}.{} = {:e} (reference {:e}, tolerance {:e}); inputs A {:?}, inputs B {:?}",
                        TYPES[a].name,
                        TYPES[b].name,
                        render(&prog),
                        TYPES[a].name,
                        lay_a.slots[sa].name,
                        va,
                        TYPES[b].name,
                        slot_b.name,
                        vb,
                        r.v,
                        tol,
                        in_a.iter().map(|f| flat_json(&lay_a, f)).collect::<Vec<_>>(),
                        in_b.iter().map(|f| flat_json(&lay_b, f)).collect::<Vec<_>>()
                    ),
                };
            }
            // also each side against the reference
            for (side, v) in [(a, va), (b, vb)] {
                if !((v - r.v).abs() <= K * u * r.e + floor) {
                    return Verdict::Fail {
                        sig: format!("C04/value/{}/order{}", c03::op_name(&prog.ops[n]), slot_b.order),
                        why: format!("{} node n{n} of `{}` part {}: {:e}, reference {:e}", TYPES[side].name, render(&prog), slot_b.name, v, r.v),
                    };
                }
            }
            if slot_b.order >= 2 {
                high = true;
            }
        }
    }
    st.count("part_comparisons", compared);
    st.count("bit_identical_part_comparisons", identical);
    st.class(&format!("mode:{mode}{}", if restrict { ",restriction to one direction per group" } else { "" }));
    let rel = if restrict {
        "vector-vs-scalar(one direction)"
    } else if a32 != b32 {
        "f32-vs-f64"
    } else if TYPES[a].ndyn != TYPES[b].ndyn {
        "static-vs-dynamic"
    } else {
        "same-algebra different type"
    };
    st.class(&format!("relation:{rel}"));
    st.class(&format!("pair:{}~{}", TYPES[a].name, TYPES[b].name));
    let nontrivial = (high || a32 != b32 || TYPES[a].ndyn != TYPES[b].ndyn) && prog.ops.len() > prog.n_inputs;
    if nontrivial && st.wants_sample() {
        st.sample(|| json!({"type_a": TYPES[a].name, "type_b": TYPES[b].name, "relation": rel, "program": render(&prog), "inputs_a": in_a.iter().map(|f| flat_json(&lay_a, f)).collect::<Vec<_>>(), "inputs_b": in_b.iter().map(|f| flat_json(&lay_b, f)).collect::<Vec<_>>()}));
    }
    Verdict::Pass { nontrivial }
}

impl Property for C04 {
    type Case = Case;
    const ID: &'static str = "C04";
    fn strategy(tier: Tier) -> BoxedStrategy<Case> {
        let max_nodes = if tier == Tier::Quick { 8 } else { 20 };
        let pair = (c03::case_strategy(max_nodes), any::<u16>(), proptest::collection::vec(any::<u8>(), 8)).prop_map(|(prog, pick, sel)| Case { prog, pick, sel, drv: None });
        let drv = (any::<u8>(), (any::<u8>(), any::<u8>(), any::<u8>()), proptest::collection::vec(c03::input_real(), 3), proptest::collection::vec(c03::raw_op(), 1..=max_nodes), any::<bool>()).prop_map(|(n, idx, x, raw, dynamic)| Case {
            prog: c03::Case { ty: 0, dims: (1, 1), x: vec![1.0], raw: vec![], parts: vec![vec![0.0]], pres: vec![vec![true]], zero: vec![false], wide: 0, wu: 0.0 },
            pick: 0,
            sel: vec![0],
            drv: Some(DrvAgree { n, idx, x, raw, dynamic }),
        });
        prop_oneof![9 => pair, 1 => drv].boxed()
    }
    fn check(case: &Case, st: &mut Stats) -> Verdict {
        if let Some(d) = &case.drv {
            if d.x.is_empty() || d.raw.is_empty() || d.x.iter().any(|x| !x.is_finite() || x.abs() > 1e3) || d.raw.iter().any(|r| !r.k.is_finite() || r.k.abs() > 1.0) {
                return Verdict::Trivial("malformed case");
            }
            return driver_agreement(d, st);
        }
        if c03::malformed(&case.prog) || case.sel.is_empty() {
            return Verdict::Trivial("malformed case");
        }
        check_pair(case, st)
    }
    /// NDERIV of every registered (nested) type is the sum over its levels
    fn exhaustive(_tier: Tier, st: &mut Stats) -> Vec<(Case, String, String)> {
        let mut fails = vec![];
        for t in 0..TYPES.len() {
            let (lay, _, nderiv) = layout_of(t, &[2, 3]);
            st.evaluations += 1;
            if nderiv == lay.groups.len() && nderiv == TYPES[t].order {
                st.passes += 1;
                st.count("nderiv_checked_types", 1);
            } else {
                let dummy = Case { prog: c03::Case { ty: t, dims: (2, 3), x: vec![1.0], raw: vec![], parts: vec![vec![0.0]], pres: vec![vec![true]], zero: vec![false], wide: 0, wu: 0.0 }, pick: 0, sel: vec![0], drv: None };
                fails.push((dummy, "C04/NDERIV".to_string(), format!("{}: NDERIV = {} but the sum over its levels is {}", TYPES[t].name, nderiv, lay.groups.len())));
            }
        }
        fails
    }
    fn cases(tier: Tier) -> u64 {
        match tier {
            Tier::Quick => 100_000,
            Tier::Thorough => 5_000_000,
        }
    }
    fn rule() -> String {
        "pure differential oracle between library types: a generated program (as C03) is evaluated on a type A and on a partner B chosen among ALL registered types that expose the same derivatives: (i) same reference algebra (e.g. Dual3 ~ Dual<Dual<Dual>> ~ Dual<Dual2> ~ Dual2<Dual> ~ HyperHyperDual; Dual2 ~ HyperDual ~ Dual<Dual>; Dual2Vec<N> ~ HyperDualVec<N,N>; static ~ dynamic storage for every N; f32 ~ f64), inputs generated for A and mapped through the embedding table (or symmetric-by-degree when neither side contains the other), (ii) vector type vs scalar type restricted to one direction per generator group (DualVec[i] ~ Dual, Dual2Vec[i,j] / HyperDualVec[i,j] ~ HyperDual / Dual2 / Dual<Dual>). Every shared part of every node must agree within 2*32 u e (e from the reference run; u of the narrower float), and each side with the reference. One case in ten instead obtains the eight partial derivatives f .. f_ijk of a generated function R^n -> R (n <= 3, generated index triple incl. repeated indices) through EVERY route the crate offers - third_partial_derivative_vec, hand-seeded HyperHyperDual, triply nested Dual, third_derivative (Dual3) and second_derivative (Dual2) when the directions coincide, second_partial_derivative (HyperDual), partial_hessian (HyperDualVec), hessian (Dual2Vec, static and dynamic), gradient (DualVec, static and dynamic), first_derivative (Dual) - and demands pairwise agreement within 2*32 u e and agreement with the reference. NDERIV of all 61 types equals the number of levels-summed orders (exhaustive). Non-trivial: the pair differs in Rust type and the compared part has order >= 2, or the pair differs in storage / width.".into()
    }
    fn assumptions() -> Vec<String> {
        vec!["dimensions 0..6, nesting depth <= 3".into()]
    }
}
