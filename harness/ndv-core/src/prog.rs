//! Programs over the generic interface: raw (generated) form, domain-repairing resolver,
//! generic interpreter for library types and the mirror interpreter over the reference algebra.

use ndv_oracle::taylor::Fun;
use ndv_oracle::{Jet, R};
use num_dual::DualNum;
use num_traits::{FromPrimitive, Signed};
use serde::{Deserialize, Serialize};

use crate::types::Flt;

#[derive(Clone, Copy, Debug, PartialEq, Eq, Hash, Serialize, Deserialize)]
pub enum Bin {
    Add,
    Sub,
    Mul,
    Div,
}
/// syntactic form of a binary operation between two duals
#[derive(Clone, Copy, Debug, PartialEq, Eq, Hash, Serialize, Deserialize)]
pub enum Form {
    /// a op b
    Owned,
    /// a op &b
    RefRhs,
    /// a op= b
    Assign,
}

/// A concrete (already domain-checked) operation. Operands are indices of earlier nodes.
#[derive(Clone, Debug, PartialEq, Serialize, Deserialize)]
pub enum Op {
    Input(usize),
    /// constant lifted with `D::from(F)`
    Const(f64),
    /// constant lifted with `FromPrimitive::from_i32`
    ConstI(i32),
    Un(String, usize),
    SinCos(usize, bool),
    Powi(usize, i32),
    Powf(usize, f64),
    Powd(usize, usize),
    Log(usize, f64),
    Atan2(usize, usize),
    MulAdd(usize, usize, usize),
    Neg(usize),
    Bin(Bin, Form, usize, usize),
    /// dual op scalar (owned or assign form)
    BinS(Bin, bool, usize, f64),
    Sum(Vec<usize>),
    Product(Vec<usize>),
    Inv(usize),
    /// scalar on the LEFT (only the Python bindings have these reflected forms): s op x, evaluated as the
    /// bindings document it: x + s, -x + s, x * s, recip(x) * s
    RBinS(Bin, usize, f64),
}

#[derive(Clone, Debug, PartialEq, Serialize, Deserialize)]
pub struct Program {
    pub n_inputs: usize,
    pub ops: Vec<Op>,
    /// output node indices
    pub outs: Vec<usize>,
}

/// raw material for one operation (everything a generator / fuzzer has to choose)
#[derive(Clone, Copy, Debug, PartialEq, Serialize, Deserialize)]
pub struct RawOp {
    pub code: u8,
    pub a: u16,
    pub b: u16,
    pub c: u16,
    /// scalar material in [-1, 1)
    pub k: f64,
    pub n: i8,
}

pub const UNARY: [Fun; 24] = [
    Fun::Recip,
    Fun::Sqrt,
    Fun::Cbrt,
    Fun::Exp,
    Fun::Exp2,
    Fun::ExpM1,
    Fun::Ln,
    Fun::Log2,
    Fun::Log10,
    Fun::Ln1p,
    Fun::Sin,
    Fun::Cos,
    Fun::Tan,
    Fun::Asin,
    Fun::Acos,
    Fun::Atan,
    Fun::Sinh,
    Fun::Cosh,
    Fun::Tanh,
    Fun::Asinh,
    Fun::Acosh,
    Fun::Atanh,
    Fun::Abs,
    Fun::Signum,
];

/// plain f64 value of a unary function (used by the resolver only)
pub fn fun_f64(f: Fun, x: f64) -> f64 {
    match f {
        Fun::Recip => 1.0 / x,
        Fun::Sqrt => x.sqrt(),
        Fun::Cbrt => x.cbrt(),
        Fun::Exp => x.exp(),
        Fun::Exp2 => x.exp2(),
        Fun::ExpM1 => x.exp_m1(),
        Fun::Ln => x.ln(),
        Fun::Log2 => x.log2(),
        Fun::Log10 => x.log10(),
        Fun::Ln1p => x.ln_1p(),
        Fun::Sin => x.sin(),
        Fun::Cos => x.cos(),
        Fun::Tan => x.tan(),
        Fun::Asin => x.asin(),
        Fun::Acos => x.acos(),
        Fun::Atan => x.atan(),
        Fun::Sinh => x.sinh(),
        Fun::Cosh => x.cosh(),
        Fun::Tanh => x.tanh(),
        Fun::Asinh => x.asinh(),
        Fun::Acosh => x.acosh(),
        Fun::Atanh => x.atanh(),
        Fun::Abs => x.abs(),
        Fun::Signum => x.signum(),
        Fun::SphJ0 => {
            if x.abs() < 1e-4 {
                1.0 - x * x / 6.0
            } else {
                x.sin() / x
            }
        }
        _ => f64::NAN,
    }
}

/// is x inside the domain of f with the fixed margins of DESIGN.md 3.6
pub fn in_domain(f: Fun, x: f64) -> bool {
    if !x.is_finite() {
        return false;
    }
    match f {
        Fun::Recip => x.abs() >= 1e-2,
        Fun::Sqrt | Fun::Ln | Fun::Log2 | Fun::Log10 => x >= 1e-2,
        Fun::Cbrt => x.abs() >= 1e-2,
        Fun::Exp | Fun::Exp2 | Fun::ExpM1 | Fun::Sinh | Fun::Cosh => x.abs() <= 12.0,
        Fun::Ln1p => x >= -0.9,
        Fun::Sin | Fun::Cos => x.abs() <= 1e4,
        Fun::Tan => x.abs() <= 1e3 && x.cos().abs() >= 0.05,
        Fun::Asin | Fun::Acos | Fun::Atanh => x.abs() <= 0.95,
        Fun::Atan | Fun::Asinh | Fun::Tanh => true,
        Fun::Acosh => x >= 1.05,
        Fun::Abs | Fun::Signum => x.abs() >= 1e-2,
        _ => false,
    }
}

const VMAX: f64 = 1.0e6;

/// Resolver: turns raw material into a concrete valid program; real values are tracked in f64.
pub struct Resolver {
    pub ops: Vec<Op>,
    pub val: Vec<f64>,
    /// raw index -> concrete node
    pub map: Vec<usize>,
    pub repaired: usize,
}

impl Resolver {
    pub fn new(inputs: &[f64]) -> Self {
        let mut r = Resolver { ops: vec![], val: vec![], map: vec![], repaired: 0 };
        for (i, x) in inputs.iter().enumerate() {
            r.ops.push(Op::Input(i));
            r.val.push(*x);
            r.map.push(i);
        }
        r
    }
    fn push(&mut self, op: Op, v: f64) -> usize {
        self.ops.push(op);
        self.val.push(v);
        self.ops.len() - 1
    }
    fn pick(&self, i: u16) -> usize {
        // monotone index mapping
        let n = self.map.len();
        self.map[(i as usize * n) >> 16]
    }
    /// bounded fallback: atan of the node
    fn fallback(&mut self, a: usize) -> usize {
        self.repaired += 1;
        let v = self.val[a].atan();
        self.push(Op::Un("atan".into(), a), v)
    }
    fn ok(v: f64) -> bool {
        v.is_finite() && v.abs() <= VMAX
    }
    pub fn add_raw(&mut self, r: &RawOp) {
        let a = self.pick(r.a);
        let b = self.pick(r.b);
        let c = self.pick(r.c);
        let (va, vb, vc) = (self.val[a], self.val[b], self.val[c]);
        // scalar constants: dyadic-ish values in [-4, 4] with 1/64 resolution, never 0
        let mut k = (r.k * 256.0).round() / 64.0;
        if k == 0.0 {
            k = 0.75;
        }
        let code = r.code % 52;
        let node = match code {
            0..=23 => {
                let f = UNARY[code as usize];
                if in_domain(f, va) && Self::ok(fun_f64(f, va)) {
                    self.push(Op::Un(f.name().into(), a), fun_f64(f, va))
                } else {
                    self.fallback(a)
                }
            }
            24 | 25 => {
                let which = code == 25;
                if va.abs() <= 1e4 {
                    let v = if which { va.cos() } else { va.sin() };
                    self.push(Op::SinCos(a, which), v)
                } else {
                    self.fallback(a)
                }
            }
            26 | 27 => {
                // powi, exponents -4..=6
                let n = (r.n as i32).rem_euclid(11) - 4;
                let v = va.powi(n);
                if (n >= 0 || va.abs() >= 1e-2) && va.abs() <= 1e2 && Self::ok(v) && (v == 0.0 || v.abs() >= 1e-12) {
                    self.push(Op::Powi(a, n), v)
                } else {
                    self.fallback(a)
                }
            }
            28 => {
                // powf, positive base; one exponent in four is special: tiny non-zero (|n| < machine epsilon),
                // an exact small integer (incl. 0, 1, 2, 3), or within a few ulps of 1 or 2
                let n = match r.n.rem_euclid(16) {
                    0 => k * 1e-16,
                    1 => (k * 4.0).round(),
                    2 => 1.0 + (k * 4.0).round() * f64::EPSILON,
                    3 => 2.0 + (k * 4.0).round() * 2.0 * f64::EPSILON,
                    _ => k * 1.25,
                };
                let v = va.powf(n);
                if va >= 1e-2 && va <= 1e2 && Self::ok(v) && v.abs() >= 1e-12 {
                    self.push(Op::Powf(a, n), v)
                } else {
                    self.fallback(a)
                }
            }
            29 => {
                let v = va.powf(vb);
                if va >= 1e-2 && va <= 1e2 && vb.abs() <= 8.0 && Self::ok(v) && v.abs() >= 1e-12 {
                    self.push(Op::Powd(a, b), v)
                } else {
                    self.fallback(a)
                }
            }
            30 => {
                let base = 1.5 + k.abs() * 3.0;
                if va >= 1e-2 {
                    self.push(Op::Log(a, base), va.log(base))
                } else {
                    self.fallback(a)
                }
            }
            31 => {
                // away from the origin and from the branch cut (y = +-0, x < 0)
                if va.abs().max(vb.abs()) >= 1e-2 && Self::ok(va) && Self::ok(vb) && !(vb < 0.0 && va.abs() < 1e-2) {
                    self.push(Op::Atan2(a, b), va.atan2(vb))
                } else {
                    self.fallback(a)
                }
            }
            32 => {
                let v = va * vb + vc;
                if Self::ok(v) && Self::ok(va * vb) {
                    self.push(Op::MulAdd(a, b, c), v)
                } else {
                    self.fallback(a)
                }
            }
            33 => self.push(Op::Neg(a), -va),
            34..=45 => {
                let idx = (code - 34) as usize;
                let bin = [Bin::Add, Bin::Sub, Bin::Mul, Bin::Div][idx % 4];
                let form = [Form::Owned, Form::RefRhs, Form::Assign][idx / 4];
                let v = match bin {
                    Bin::Add => va + vb,
                    Bin::Sub => va - vb,
                    Bin::Mul => va * vb,
                    Bin::Div => va / vb,
                };
                if Self::ok(v) && (bin != Bin::Div || vb.abs() >= 1e-2) {
                    self.push(Op::Bin(bin, form, a, b), v)
                } else {
                    self.fallback(a)
                }
            }
            46..=49 => {
                let bin = [Bin::Add, Bin::Sub, Bin::Mul, Bin::Div][(code - 46) as usize];
                let assign = r.n & 1 == 1;
                let v = match bin {
                    Bin::Add => va + k,
                    Bin::Sub => va - k,
                    Bin::Mul => va * k,
                    Bin::Div => va / k,
                };
                if Self::ok(v) {
                    self.push(Op::BinS(bin, assign, a, k), v)
                } else {
                    self.fallback(a)
                }
            }
            50 => {
                // sum / product over up to three nodes
                let list = match r.n.rem_euclid(3) {
                    0 => vec![a],
                    1 => vec![a, b],
                    _ => vec![a, b, c],
                };
                if r.n < 0 {
                    let v: f64 = list.iter().map(|i| self.val[*i]).product();
                    if Self::ok(v) {
                        self.push(Op::Product(list), v)
                    } else {
                        self.fallback(a)
                    }
                } else {
                    let v: f64 = list.iter().map(|i| self.val[*i]).sum();
                    if Self::ok(v) {
                        self.push(Op::Sum(list), v)
                    } else {
                        self.fallback(a)
                    }
                }
            }
            _ => {
                // constants
                if r.n & 1 == 0 {
                    self.push(Op::Const(k), k)
                } else {
                    let n = (r.n as i32) / 2;
                    self.push(Op::ConstI(n), n as f64)
                }
            }
        };
        self.map.push(node);
    }
    pub fn finish(self, n_inputs: usize, n_outs: usize) -> Program {
        let n = self.ops.len();
        let outs: Vec<usize> = (n.saturating_sub(n_outs)..n).collect();
        Program { n_inputs, ops: self.ops, outs }
    }
}

pub fn resolve(inputs: &[f64], raw: &[RawOp], n_outs: usize) -> (Program, usize) {
    let mut r = Resolver::new(inputs);
    for op in raw {
        r.add_raw(op);
    }
    let rep = r.repaired;
    (r.finish(inputs.len(), n_outs), rep)
}

/// apply a named unary function of the DualNum interface
pub fn apply_un<D: DualNum<F> + Signed, F: Flt>(f: Fun, x: &D) -> D {
    match f {
        Fun::Recip => x.recip(),
        Fun::Sqrt => x.sqrt(),
        Fun::Cbrt => x.cbrt(),
        Fun::Exp => x.exp(),
        Fun::Exp2 => x.exp2(),
        Fun::ExpM1 => x.exp_m1(),
        Fun::Ln => x.ln(),
        Fun::Log2 => x.log2(),
        Fun::Log10 => x.log10(),
        Fun::Ln1p => x.ln_1p(),
        Fun::Sin => x.sin(),
        Fun::Cos => x.cos(),
        Fun::Tan => x.tan(),
        Fun::Asin => x.asin(),
        Fun::Acos => x.acos(),
        Fun::Atan => x.atan(),
        Fun::Sinh => x.sinh(),
        Fun::Cosh => x.cosh(),
        Fun::Tanh => x.tanh(),
        Fun::Asinh => x.asinh(),
        Fun::Acosh => x.acosh(),
        Fun::Atanh => x.atanh(),
        Fun::Abs => x.abs(),
        Fun::Signum => x.signum(),
        Fun::SphJ0 => x.sph_j0(),
        Fun::SphJ1 => x.sph_j1(),
        Fun::SphJ2 => x.sph_j2(),
        Fun::BesselJ0 | Fun::BesselJ1 | Fun::BesselJ2 => panic!("bessel functions need BesselDual"),
    }
}

thread_local! {
    /// evaluate the reflected division s / x as D::from(s) / x instead of recip(x) * s
    pub static RDIV_ALT: std::cell::Cell<bool> = const { std::cell::Cell::new(false) };
}

/// Evaluate a program with the library type D. Returns all node values.
pub fn eval_lib<D: DualNum<F>, F: Flt>(p: &Program, inputs: &[D]) -> Vec<D> {
    let mut v: Vec<D> = Vec::with_capacity(p.ops.len());
    for op in &p.ops {
        let r: D = match op {
            Op::Input(i) => inputs[*i].clone(),
            Op::Const(k) => D::from(F::from64(*k)),
            Op::ConstI(n) => <D as FromPrimitive>::from_i32(*n).unwrap(),
            Op::Un(name, a) => apply_un::<D, F>(Fun::from_name(name).expect("function name"), &v[*a]),
            Op::SinCos(a, which) => {
                let (s, c) = v[*a].sin_cos();
                if *which {
                    c
                } else {
                    s
                }
            }
            Op::Powi(a, n) => v[*a].powi(*n),
            Op::Powf(a, n) => v[*a].powf(F::from64(*n)),
            Op::Powd(a, b) => v[*a].powd(v[*b].clone()),
            Op::Log(a, b) => v[*a].log(F::from64(*b)),
            Op::Atan2(a, b) => v[*a].atan2(v[*b].clone()),
            Op::MulAdd(a, b, c) => v[*a].mul_add(v[*b].clone(), v[*c].clone()),
            Op::Neg(a) => -v[*a].clone(),
            Op::Inv(a) => v[*a].clone().inv(),
            Op::Bin(bin, form, a, b) => {
                let x = v[*a].clone();
                match form {
                    Form::Owned => {
                        let y = v[*b].clone();
                        match bin {
                            Bin::Add => x + y,
                            Bin::Sub => x - y,
                            Bin::Mul => x * y,
                            Bin::Div => x / y,
                        }
                    }
                    Form::RefRhs => {
                        let y = &v[*b];
                        match bin {
                            Bin::Add => x + y,
                            Bin::Sub => x - y,
                            Bin::Mul => x * y,
                            Bin::Div => x / y,
                        }
                    }
                    Form::Assign => {
                        let mut x = x;
                        let y = v[*b].clone();
                        match bin {
                            Bin::Add => x += y,
                            Bin::Sub => x -= y,
                            Bin::Mul => x *= y,
                            Bin::Div => x /= y,
                        }
                        x
                    }
                }
            }
            Op::BinS(bin, assign, a, k) => {
                let mut x = v[*a].clone();
                let s = F::from64(*k);
                if *assign {
                    match bin {
                        Bin::Add => x += s,
                        Bin::Sub => x -= s,
                        Bin::Mul => x *= s,
                        Bin::Div => x /= s,
                    }
                    x
                } else {
                    match bin {
                        Bin::Add => x + s,
                        Bin::Sub => x - s,
                        Bin::Mul => x * s,
                        Bin::Div => x / s,
                    }
                }
            }
            Op::Sum(list) => list.iter().map(|i| v[*i].clone()).sum(),
            Op::Product(list) => list.iter().map(|i| v[*i].clone()).product(),
            Op::RBinS(bin, a, k) => {
                let x = v[*a].clone();
                let s = F::from64(*k);
                match bin {
                    Bin::Add => x + s,
                    Bin::Sub => -x + s,
                    Bin::Mul => x * s,
                    Bin::Div => {
                        if RDIV_ALT.with(|c| c.get()) {
                            D::from(s) / x
                        } else {
                            x.recip() * s
                        }
                    }
                }
            }
        };
        v.push(r);
    }
    v
}

/// Mirror interpreter over the reference algebra. None = some node left the domain handled by the
/// reference (the case is then out of domain, never a failure).
pub fn eval_ref(p: &Program, inputs: &[Jet], is32: bool, levels: usize) -> Option<Vec<Jet>> {
    let alg = inputs.first()?.alg.clone();
    let mut v: Vec<Jet> = Vec::with_capacity(p.ops.len());
    // a scalar is an exact input for f64 types; for f32 types it is rounded to f32 first by the caller
    let sc = |k: f64| -> R {
        if is32 {
            R::exact(k as f32 as f64)
        } else {
            R::exact(k)
        }
    };
    for op in &p.ops {
        let r: Jet = match op {
            Op::Input(i) => inputs[*i].clone(),
            Op::Const(k) => Jet::constant(&alg, sc(*k)),
            Op::ConstI(n) => Jet::constant(&alg, R::exact(*n as f64)),
            Op::Un(name, a) => v[*a].apply(Fun::from_name(name)?)?,
            Op::SinCos(a, which) => v[*a].apply(if *which { Fun::Cos } else { Fun::Sin })?,
            Op::Powi(a, n) => {
                let x = &v[*a];
                let dd = alg.depth() as f64;
                x.powf_lib(*n as f64, 2.0 + 3.0 * dd + (*n as f64).abs(), levels)?
            }
            Op::Powf(a, n) => {
                let x = &v[*a];
                let nn = sc(*n).v;
                let lnx = if x.re().v > 0.0 { x.re().v.ln().abs() } else { 0.0 };
                // the library evaluates x^n as x^(n-3) x x x on every nesting level
                let dd = alg.depth() as f64;
                x.powf_lib(nn, 6.0 + 3.0 * dd + (nn.abs() + 3.0 * dd) * lnx, levels)?
            }
            Op::Powd(a, b) => v[*a].powd(&v[*b])?,
            Op::Log(a, b) => v[*a].log(sc(*b).v)?,
            Op::Atan2(a, b) => v[*a].atan2(&v[*b])?,
            Op::MulAdd(a, b, c) => v[*a].mul(&v[*b]).add(&v[*c]),
            Op::Neg(a) => v[*a].neg(),
            Op::Inv(a) => v[*a].recip()?,
            Op::Bin(bin, _, a, b) => match bin {
                Bin::Add => v[*a].add(&v[*b]),
                Bin::Sub => v[*a].sub(&v[*b]),
                Bin::Mul => v[*a].mul(&v[*b]),
                Bin::Div => v[*a].div(&v[*b])?,
            },
            Op::BinS(bin, _, a, k) => {
                let s = sc(*k);
                match bin {
                    Bin::Add => v[*a].add_scalar(s),
                    Bin::Sub => v[*a].add_scalar(-s),
                    Bin::Mul => v[*a].scale(s),
                    Bin::Div => v[*a].unscale(s),
                }
            }
            Op::Sum(list) => {
                let mut acc = Jet::zero(&alg);
                for i in list {
                    acc = acc.add(&v[*i]);
                }
                acc
            }
            Op::Product(list) => {
                let mut acc = Jet::constant(&alg, R::ONE);
                for i in list {
                    acc = acc.mul(&v[*i]);
                }
                acc
            }
            Op::RBinS(bin, a, k) => {
                let s = sc(*k);
                match bin {
                    Bin::Add => v[*a].add_scalar(s),
                    Bin::Sub => v[*a].neg().add_scalar(s),
                    Bin::Mul => v[*a].scale(s),
                    Bin::Div => v[*a].recip()?.scale(s),
                }
            }
        };
        if !r.all_finite() {
            return None;
        }
        v.push(r);
    }
    Some(v)
}

/// human-readable rendering of a program (for evidence samples)
pub fn render(p: &Program) -> String {
    let mut s = String::new();
    for (i, op) in p.ops.iter().enumerate() {
        let t = match op {
            Op::Input(k) => format!("x{k}"),
            Op::Const(k) => format!("{k}"),
            Op::ConstI(k) => format!("{k}i"),
            Op::Un(f, a) => format!("{f}(n{a})"),
            Op::SinCos(a, w) => format!("sin_cos(n{a}).{}", if *w { 1 } else { 0 }),
            Op::Powi(a, n) => format!("powi(n{a},{n})"),
            Op::Powf(a, n) => format!("powf(n{a},{n})"),
            Op::Powd(a, b) => format!("powd(n{a},n{b})"),
            Op::Log(a, b) => format!("log(n{a},{b})"),
            Op::Atan2(a, b) => format!("atan2(n{a},n{b})"),
            Op::MulAdd(a, b, c) => format!("mul_add(n{a},n{b},n{c})"),
            Op::Neg(a) => format!("-n{a}"),
            Op::Inv(a) => format!("inv(n{a})"),
            Op::Bin(b, f, x, y) => {
                let o = match b {
                    Bin::Add => "+",
                    Bin::Sub => "-",
                    Bin::Mul => "*",
                    Bin::Div => "/",
                };
                match f {
                    Form::Owned => format!("n{x} {o} n{y}"),
                    Form::RefRhs => format!("n{x} {o} &n{y}"),
                    Form::Assign => format!("n{x} {o}= n{y}"),
                }
            }
            Op::BinS(b, asg, x, k) => {
                let o = match b {
                    Bin::Add => "+",
                    Bin::Sub => "-",
                    Bin::Mul => "*",
                    Bin::Div => "/",
                };
                format!("n{x} {o}{} {k}", if *asg { "=" } else { "" })
            }
            Op::Sum(l) => format!("sum{l:?}"),
            Op::Product(l) => format!("product{l:?}"),
            Op::RBinS(b, x, k) => {
                let o = match b {
                    Bin::Add => "+",
                    Bin::Sub => "-",
                    Bin::Mul => "*",
                    Bin::Div => "/",
                };
                format!("{k} {o} n{x}")
            }
        };
        if i >= p.n_inputs {
            s.push_str(&format!("n{i}={t}; "));
        }
    }
    s.push_str(&format!("out={:?}", p.outs));
    s
}
