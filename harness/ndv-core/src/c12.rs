//! C12 - linear algebra over dual numbers differentiates implicitly defined results.

use crate::common::*;
use crate::engine::*;
use crate::types::{Flat, Flt, Layout, Ty};
use nalgebra::{DMatrix, DVector, RealField};
use ndarray::{Array1, Array2};
use ndv_oracle::{Alg, Jet, R};
use num_dual::linalg::{jacobi_eigenvalue, norm, smallest_ev, LU};
use num_dual::*;
use proptest::prelude::*;
use serde::{Deserialize, Serialize};
use serde_json::json;
use std::sync::Arc;

#[derive(Clone, Copy, Debug, PartialEq, Serialize, Deserialize)]
pub enum Routine {
    OwnSolve,
    OwnInverse,
    OwnDet,
    OwnEigen,
    OwnNorm,
    OwnSingular,
    NaSolve,
    NaInverse,
    NaDet,
    NaEigen,
    NaSingular,
}

#[derive(Clone, Debug, Serialize, Deserialize)]
pub struct Case {
    pub routine: Routine,
    pub ty: u8,
    pub n: u8,
    /// rotation angles (fractions of a turn), singular / eigen values material, permutation material
    pub angles: Vec<f64>,
    pub sv: Vec<f64>,
    pub perm: Vec<u8>,
    pub high_kappa: bool,
    pub parts: Vec<f64>,
    pub rhs: Vec<f64>,
    pub sing: u8,
    /// the whole matrix (real and derivative parts) is multiplied by 2^scale2 (exact), |scale2| <= 60:
    /// every routine is scale-covariant, a threshold on absolute magnitudes is not
    #[serde(default)]
    pub scale2: i8,
    /// 0: the symmetric matrix is Q L Q^T; otherwise a structured matrix with a CONSTANT diagonal
    /// (all diagonal real parts bit-equal: a I + B with B hollow - tridiagonal, full or 2x2 blocks)
    #[serde(default)]
    pub eqdiag: u8,
}

pub struct C12;

fn givens(n: usize, angles: &[f64], off: usize) -> Vec<Vec<f64>> {
    let mut q = vec![vec![0.0; n]; n];
    for i in 0..n {
        q[i][i] = 1.0;
    }
    let mut k = off;
    for p in 0..n {
        for r in p + 1..n {
            let t = angles[k % angles.len()] * std::f64::consts::TAU;
            k += 1;
            let (s, c) = t.sin_cos();
            for row in q.iter_mut() {
                let (a, b) = (row[p], row[r]);
                row[p] = c * a - s * b;
                row[r] = s * a + c * b;
            }
        }
    }
    q
}
fn matmul(a: &[Vec<f64>], b: &[Vec<f64>]) -> Vec<Vec<f64>> {
    let n = a.len();
    let mut c = vec![vec![0.0; n]; n];
    for i in 0..n {
        for j in 0..n {
            c[i][j] = (0..n).map(|k| a[i][k] * b[k][j]).sum();
        }
    }
    c
}

/// real parts of a general matrix P (Q1 D Q2) with known condition number; returns (matrix, kappa, odd permutation?)
fn general_matrix(case: &Case, n: usize) -> (Vec<Vec<f64>>, f64, bool, bool) {
    let q1 = givens(n, &case.angles, 0);
    let q2 = givens(n, &case.angles, 17);
    let mut d = vec![vec![0.0; n]; n];
    let (mut smin, mut smax) = (f64::MAX, 0.0f64);
    for i in 0..n {
        let u = case.sv[i % case.sv.len()];
        let s = if case.high_kappa { 10f64.powf(-4.0 * u) } else { 0.5 + 1.5 * u };
        d[i][i] = s;
        smin = smin.min(s);
        smax = smax.max(s);
    }
    // normalise: largest singular value 1, so that ||A^-1|| = kappa
    for i in 0..n {
        d[i][i] /= smax;
    }
    let m = matmul(&matmul(&q1, &d), &q2);
    // row permutation
    let mut p: Vec<usize> = (0..n).collect();
    let mut swaps = 0;
    for i in (1..n).rev() {
        let j = case.perm[i % case.perm.len()] as usize % (i + 1);
        if i != j {
            p.swap(i, j);
            swaps += 1;
        }
    }
    let pm: Vec<Vec<f64>> = (0..n).map(|i| m[p[i]].clone()).collect();
    (pm, smax / smin, swaps % 2 == 1, swaps > 0)
}

/// symmetric matrix Q diag(l) Q^T with eigenvalue gaps >= g; returns (matrix, gap, norm)
fn symmetric_matrix(case: &Case, n: usize) -> (Vec<Vec<f64>>, f64, f64) {
    let mut q = givens(n, &case.angles, 5);
    if case.high_kappa {
        // real part already diagonal / block-diagonal: only the derivative parts couple the blocks
        // (the iteration then has nothing to do on the real parts)
        if case.sing % 2 == 0 || n < 3 {
            q = (0..n).map(|i| (0..n).map(|j| if i == j { 1.0 } else { 0.0 }).collect()).collect();
        } else {
            let t = case.angles[0] * std::f64::consts::TAU;
            q = (0..n).map(|i| (0..n).map(|j| if i == j { 1.0 } else { 0.0 }).collect()).collect();
            q[0][0] = t.cos();
            q[0][1] = -t.sin();
            q[1][0] = t.sin();
            q[1][1] = t.cos();
        }
    }
    let mut l = vec![0.0; n];
    let mut cur = -2.0 + 2.0 * case.sv[0];
    let mut gap = f64::MAX;
    for i in 0..n {
        if i > 0 {
            let g = 0.25 + 1.5 * case.sv[i % case.sv.len()];
            gap = gap.min(g);
            cur += g;
        }
        l[i] = cur;
    }
    if n == 1 {
        gap = 1.0;
    }
    let mut d = vec![vec![0.0; n]; n];
    for i in 0..n {
        d[i][i] = l[i];
    }
    let qt: Vec<Vec<f64>> = (0..n).map(|i| (0..n).map(|j| q[j][i]).collect()).collect();
    let mut m = matmul(&matmul(&q, &d), &qt);
    for i in 0..n {
        for j in 0..i {
            let s = 0.5 * (m[i][j] + m[j][i]);
            m[i][j] = s;
            m[j][i] = s;
        }
    }
    let nrm = l.iter().fold(0.0f64, |a, b| a.max(b.abs())).max(1.0);
    (m, gap, nrm)
}

/// eigenvalues of a symmetric real matrix by the cyclic Jacobi method in plain f64 (harness-side, only
/// used to know the eigenvalue gap of the structured matrices below)
fn plain_eigenvalues(m: &[Vec<f64>]) -> Vec<f64> {
    let n = m.len();
    let mut a: Vec<Vec<f64>> = m.to_vec();
    for _ in 0..60 {
        let off: f64 = (0..n).map(|i| (0..n).filter(|j| *j != i).map(|j| a[i][j] * a[i][j]).sum::<f64>()).sum();
        if off < 1e-30 {
            break;
        }
        for p in 0..n {
            for q in p + 1..n {
                if a[p][q] == 0.0 {
                    continue;
                }
                let theta = 0.5 * (2.0 * a[p][q]).atan2(a[q][q] - a[p][p]);
                let (s, c) = theta.sin_cos();
                for k in 0..n {
                    let (akp, akq) = (a[k][p], a[k][q]);
                    a[k][p] = c * akp - s * akq;
                    a[k][q] = s * akp + c * akq;
                }
                for k in 0..n {
                    let (apk, aqk) = (a[p][k], a[q][k]);
                    a[p][k] = c * apk - s * aqk;
                    a[q][k] = s * apk + c * aqk;
                }
            }
        }
    }
    let mut l: Vec<f64> = (0..n).map(|i| a[i][i]).collect();
    l.sort_by(|x, y| x.partial_cmp(y).unwrap_or(std::cmp::Ordering::Equal));
    l
}

/// symmetric matrix with a constant diagonal: a I + B, B hollow symmetric with dyadic entries;
/// returns None when two eigenvalues are too close for the conditioning-scaled tolerance
fn eqdiag_matrix(case: &Case, n: usize) -> Option<(Vec<Vec<f64>>, f64, f64)> {
    let a = ((-2.0 + 4.0 * case.sv[0]) * 8.0).round() / 8.0;
    let mut m = vec![vec![0.0; n]; n];
    let mut k = 0;
    for i in 0..n {
        m[i][i] = a;
        for j in i + 1..n {
            let v = ((case.angles[k % case.angles.len()] * 2.0 - 1.0) * 16.0).round() / 8.0;
            k += 1;
            let keep = match case.eqdiag % 3 {
                0 => j == i + 1,          // tridiagonal (Laplacian-like)
                1 => true,                // full
                _ => i / 2 == j / 2 || (i + j) % 3 == 0, // 2x2 blocks plus a few couplings
            };
            if keep {
                let v = if v == 0.0 { 1.0 } else { v };
                m[i][j] = v;
                m[j][i] = v;
            }
        }
    }
    let l = plain_eigenvalues(&m);
    let nrm = l.iter().fold(0.0f64, |s, x| s.max(x.abs())).max(1.0);
    let gap = if n == 1 { 1.0 } else { l.windows(2).map(|w| w[1] - w[0]).fold(f64::MAX, f64::min) };
    if !(gap >= 0.2) {
        return None;
    }
    Some((m, gap, nrm))
}

/// a matrix whose real part is singular with an all-zero pivot column at some elimination step,
/// built from exact dyadic entries
fn singular_matrix(case: &Case, n: usize) -> Vec<Vec<f64>> {
    let mut m = vec![vec![0.0; n]; n];
    for i in 0..n {
        for j in 0..n {
            let k = case.perm[(i * n + j) % case.perm.len()] as i32 % 9 - 4;
            m[i][j] = k as f64 / 2.0 + if i == j { 3.0 } else { 0.0 };
        }
    }
    match case.sing % 2 {
        0 => {
            // a zero column: every multiplier times zero stays zero, the pivot column is exactly zero
            let c = case.sing as usize / 2 % n;
            for row in m.iter_mut() {
                row[c] = 0.0;
            }
        }
        _ => {
            // block structure: rows >= c vanish in columns <= c, so no elimination step touches them
            // (their multipliers are exactly zero) and step c finds an all-zero pivot column
            let c = case.sing as usize / 2 % n;
            for k in c..n {
                for j in 0..=c {
                    m[k][j] = 0.0;
                }
            }
        }
    }
    m
}

struct Mat {
    n: usize,
    flats: Vec<Flat>, // row-major n x n
}

fn entry_flat(lay: &Layout, re: f64, parts: &[f64], off: usize, sym_off: Option<usize>) -> Flat {
    let mut vals = Vec::with_capacity(lay.slots.len());
    vals.push(re);
    for s in 1..lay.slots.len() {
        let o = sym_off.unwrap_or(off);
        // derivative parts of the matrix entries are kept O(1) relative to the entries
        vals.push(parts[(o * 7 + s * 3) % parts.len()].clamp(-4.0, 4.0));
    }
    Flat { vals, pres: vec![true; lay.blocks.len()] }
}

fn build_matrix(lay: &Layout, re: &[Vec<f64>], parts: &[f64], symmetric: bool, s: f64) -> Mat {
    let n = re.len();
    let mut flats = vec![];
    for i in 0..n {
        for j in 0..n {
            let off = i * n + j;
            let sym = if symmetric { Some(i.min(j) * n + i.max(j)) } else { None };
            let mut f = entry_flat(lay, re[i][j], parts, off, sym);
            for v in f.vals.iter_mut() {
                *v *= s;
            }
            flats.push(f);
        }
    }
    Mat { n, flats }
}
/// 2^scale2 for the routines that are checked under scaling
fn scale_of(case: &Case) -> f64 {
    2f64.powi(case.scale2.clamp(-60, 60) as i32)
}

fn jets(lay: &Layout, alg: &Arc<Alg>, flats: &[Flat]) -> Vec<Jet> {
    flats.iter().map(|f| lay.embed(alg, &f.vals, &f.pres)).collect()
}

/// largest |coefficient| and the summed magnitude per monomial of a list of residual jets
struct Resid {
    worst: f64,
    detail: String,
    by_order: [f64; 5],
}

/// check residual jets: |value| <= c * u * scale * m  (m: summed magnitude of the terms of the identity)
fn check_residual(name: &str, res: &[Jet], lay: &Layout, alg: &Arc<Alg>, factor: &dyn Fn(u8) -> f64, pmax: f64, fscale: f64) -> Result<Resid, (String, String)> {
    let u = <f64 as Flt>::U;
    let mut worst = 0.0f64;
    let mut detail = String::new();
    let mut by_order = [0.0f64; 5];
    for (idx, r) in res.iter().enumerate() {
        for s in &lay.slots {
            let c = r.c[alg.index(&s.monos[0])];
            if !c.v.is_finite() {
                return Err((format!("C12/{name}/nonfinite"), format!("{name}: residual entry {idx} part {} is not finite", s.name)));
            }
            // magnitude of the identity's terms, at least the scale of the input parts of that order
            let scale = c.m.max(fscale * pmax.powi(s.order as i32));
            let tol = factor(s.order) * u * scale;
            let ratio = c.v.abs() / (u * scale);
            if ratio > worst {
                worst = ratio;
                detail = format!("entry {idx} part {}", s.name);
            }
            let o = (s.order as usize).min(4);
            by_order[o] = by_order[o].max(ratio);
            if c.v.abs() > tol {
                return Err((
                    format!("C12/{name}/order{}", s.order),
                    format!("{name}: defining identity violated in entry {idx}, part {}: residual {:.3e} > tolerance {:.3e} (magnitude of the terms {:.3e})", s.name, c.v, tol, scale),
                ));
            }
        }
    }
    Ok(Resid { worst, detail, by_order })
}

fn jzero(alg: &Arc<Alg>) -> Jet {
    Jet::zero(alg)
}

/// A x - b in the reference algebra
fn resid_axb(alg: &Arc<Alg>, a: &[Jet], x: &[Jet], b: &[Jet], n: usize) -> Vec<Jet> {
    (0..n)
        .map(|i| {
            let mut acc = jzero(alg);
            for k in 0..n {
                acc = acc.add(&a[i * n + k].mul(&x[k]));
            }
            acc.sub(&b[i])
        })
        .collect()
}

fn leibniz_det(alg: &Arc<Alg>, a: &[Jet], n: usize) -> Jet {
    // permutations by Heap's algorithm with sign
    fn rec(alg: &Arc<Alg>, a: &[Jet], n: usize, row: usize, used: &mut Vec<bool>, sign: f64, prod: &Jet, acc: &mut Jet) {
        if row == n {
            *acc = if sign > 0.0 { acc.add(prod) } else { acc.sub(prod) };
            return;
        }
        let mut inv = 0;
        for c in 0..n {
            if used[c] {
                continue;
            }
            // number of unused columns before c = inversions contributed
            let p = prod.mul(&a[row * n + c]);
            used[c] = true;
            rec(alg, a, n, row + 1, used, if inv % 2 == 0 { sign } else { -sign }, &p, acc);
            used[c] = false;
            inv += 1;
        }
    }
    let mut acc = jzero(alg);
    let one = Jet::constant(alg, R::ONE);
    rec(alg, a, n, 0, &mut vec![false; n], 1.0, &one, &mut acc);
    acc
}

type Res = Result<(f64, bool), Verdict>;

fn own<T>(case: &Case, st: &mut Stats) -> Res
where
    T: Ty<F = f64> + DualNum<f64> + Copy,
{
    let dims = [0usize, 0];
    let lay = T::layout(&dims);
    let alg = lay.alg();
    let n = (case.n as usize % 6) + 1;
    let tname = T::tname(&dims);
    ndv_oracle::ring::set_unit(<f64 as Flt>::U);
    // memory layout of the ndarray input: row-major, column-major, or a non-contiguous view into a larger
    // array (the routines index by (i, j); anything that addresses the storage directly depends on it)
    let layout = case.perm[case.perm.len() - 1] % 4;
    let to_arr2 = |m: &Mat| -> Array2<T> {
        use ndarray::ShapeBuilder;
        let get = |i: usize, j: usize| T::from_flat(&dims, &m.flats[i * n + j]);
        match layout {
            1 => Array2::from_shape_fn((n, n).f(), |(i, j)| get(i, j)),
            2 => Array2::from_shape_fn((n, n), |(i, j)| get(j, i)).reversed_axes(),
            3 => {
                let big = Array2::from_shape_fn((2 * n, 2 * n + 1), |(i, j)| get(i / 2 % n, j / 2 % n));
                big.slice(ndarray::s![..;2, ..2 * n;2]).to_owned()
            }
            _ => Array2::from_shape_fn((n, n), |(i, j)| get(i, j)),
        }
    };
    st.class(["ndarray layout: row-major", "ndarray layout: column-major", "ndarray layout: transposed view made owned", "ndarray layout: strided slice made owned"][layout as usize]);
    let fail = |sig: String, why: String, m: &Mat| Verdict::Fail { sig, why: format!("{why}; type {tname}, n = {n}, matrix real parts {:?}", m.flats.iter().map(|f| f.vals[0]).collect::<Vec<_>>()) };
    let bf: Vec<Flat> = (0..n).map(|i| entry_flat(&lay, case.rhs[i % case.rhs.len()], &case.parts, 100 + i, None)).collect();
    let pmax = case.parts.iter().fold(1.0f64, |a, b| a.max(b.abs())).min(4.0);
    match case.routine {
        Routine::OwnSolve | Routine::OwnInverse | Routine::OwnDet => {
            let (re, kappa, odd, swapped) = general_matrix(case, n);
            let s = scale_of(case);
            if s != 1.0 {
                st.class("matrix scaled by a power of two");
            }
            let m = build_matrix(&lay, &re, &case.parts, false, s);
            let a = to_arr2(&m);
            let lu = match LU::new(a) {
                Ok(l) => l,
                Err(_) => return Err(fail("C12/own-lu/false-singular".into(), format!("LU::new reports a singular matrix for condition number {kappa:.3}"), &m)),
            };
            let aj = jets(&lay, &alg, &m.flats);
            let factor = |o: u8| 64.0 * n as f64 * (1.0 + kappa).powi(1 + o as i32);
            let r = match case.routine {
                Routine::OwnSolve => {
                    let b = Array1::from_shape_fn(n, |i| T::from_flat(&dims, &bf[i]));
                    let x = lu.solve(&b);
                    let xj = jets(&lay, &alg, &x.iter().map(|v| v.to_flat(&dims)).collect::<Vec<_>>());
                    let bj = jets(&lay, &alg, &bf);
                    check_residual("own-lu-solve", &resid_axb(&alg, &aj, &xj, &bj, n), &lay, &alg, &factor, pmax, 1.0)
                }
                Routine::OwnInverse => {
                    let inv = lu.inverse();
                    let ij = jets(&lay, &alg, &(0..n * n).map(|k| inv[(k / n, k % n)].to_flat(&dims)).collect::<Vec<_>>());
                    let mut res = vec![];
                    for i in 0..n {
                        for j in 0..n {
                            let mut acc = jzero(&alg);
                            for k in 0..n {
                                acc = acc.add(&aj[i * n + k].mul(&ij[k * n + j]));
                            }
                            if i == j {
                                acc = acc.add_scalar(-R::ONE);
                            }
                            res.push(acc);
                        }
                    }
                    check_residual("own-lu-inverse", &res, &lay, &alg, &factor, pmax, 1.0)
                }
                _ => {
                    let det = lu.determinant().to_flat(&dims);
                    let want = leibniz_det(&alg, &aj, n);
                    let dj = lay.embed(&alg, &det.vals, &det.pres);
                    let mut diff = dj.sub(&want);
                    // magnitude of the Leibniz terms
                    for (c, w) in diff.c.iter_mut().zip(&want.c) {
                        c.m = w.m.max(c.m);
                    }
                    check_residual("own-lu-determinant", &[diff], &lay, &alg, &factor, pmax, s.powi(n as i32))
                }
            };
            match r {
                Ok(rs) => {
                    for o in 0..=lay.max_order().min(4) {
                        st.ratio(&format!("{:?}/order{o}: residual/(n u (1+kappa)^(1+o) m)", case.routine), rs.by_order[o] / (n as f64 * (1.0 + kappa).powi(1 + o as i32)));
                    }
                    let _ = rs.detail;
                    if swapped {
                        st.class(if odd { "row permutation: odd" } else { "row permutation: even" });
                    }
                    Ok((kappa, n >= 3 && swapped))
                }
                Err((sig, why)) => Err(fail(sig, why, &m)),
            }
        }
        Routine::OwnEigen => {
            let (re, gap, nrm) = if case.eqdiag != 0 {
                match eqdiag_matrix(case, n) {
                    Some(r) => {
                        st.class("symmetric matrix with a constant diagonal");
                        r
                    }
                    None => return Ok((1.0, false)),
                }
            } else {
                symmetric_matrix(case, n)
            };
            let s = scale_of(case);
            if s != 1.0 {
                st.class("matrix scaled by a power of two");
            }
            let m = build_matrix(&lay, &re, &case.parts, true, s);
            let a = to_arr2(&m);
            let (l, v) = jacobi_eigenvalue(a.clone(), 200);
            let aj = jets(&lay, &alg, &m.flats);
            let lj = jets(&lay, &alg, &l.iter().map(|x| x.to_flat(&dims)).collect::<Vec<_>>());
            let vj = jets(&lay, &alg, &(0..n * n).map(|k| v[(k / n, k % n)].to_flat(&dims)).collect::<Vec<_>>());
            // ascending
            for k in 1..n {
                if l[k].re() < l[k - 1].re() {
                    return Err(fail("C12/own-eigen/order".into(), format!("eigenvalues not ascending: {} then {}", l[k - 1].re(), l[k].re()), &m));
                }
            }
            // A V = V diag(l), V^T V = I
            let mut res = vec![];
            for i in 0..n {
                for j in 0..n {
                    let mut acc = jzero(&alg);
                    for k in 0..n {
                        acc = acc.add(&aj[i * n + k].mul(&vj[k * n + j]));
                    }
                    res.push(acc.sub(&vj[i * n + j].mul(&lj[j])));
                }
            }
            let mut res_orth = vec![];
            for i in 0..n {
                for j in 0..n {
                    let mut acc = jzero(&alg);
                    for k in 0..n {
                        acc = acc.add(&vj[k * n + i].mul(&vj[k * n + j]));
                    }
                    if i == j {
                        acc = acc.add_scalar(-R::ONE);
                    }
                    res_orth.push(acc);
                }
            }
            // iterative routine: calibrated, gap-scaled tolerance per order (DESIGN 4-C12)
            let amp = 1.0 + nrm / gap;
            let factor = |o: u8| 64.0 * n as f64 * amp.powi(1 + 2 * o as i32);
            // smallest_ev is the first pair
            let (e0, v0) = smallest_ev(a);
            if e0.re().to_bits() != l[0].re().to_bits() || v0.len() != n {
                return Err(fail("C12/own-eigen/smallest_ev".into(), "smallest_ev differs from the first eigenpair of jacobi_eigenvalue".into(), &m));
            }
            let both = check_residual("own-jacobi-eigen", &res, &lay, &alg, &factor, pmax, s).and_then(|r1| {
                check_residual("own-jacobi-eigen", &res_orth, &lay, &alg, &factor, pmax, 1.0).map(|r2| {
                    let mut by = r1.by_order;
                    for o in 0..5 {
                        by[o] = by[o].max(r2.by_order[o]);
                    }
                    Resid { worst: r1.worst.max(r2.worst), detail: r1.detail, by_order: by }
                })
            });
            match both {
                Ok(rs) => {
                    for o in 0..=lay.max_order().min(4) {
                        st.ratio(&format!("OwnEigen/order{o}: residual/(n u amp^(1+2o) m)"), rs.by_order[o] / (n as f64 * amp.powi(1 + 2 * o as i32)));
                    }
                    Ok((amp, n >= 3))
                }
                Err((sig, why)) => Err(fail(sig, format!("{why} (eigenvalue gap {gap:.3})"), &m)),
            }
        }
        Routine::OwnNorm => {
            let x = Array1::from_shape_fn(n, |i| T::from_flat(&dims, &bf[i]));
            if bf.iter().all(|f| f.vals[0].abs() < 1e-2) {
                return Ok((1.0, false));
            }
            let got = norm(&x).to_flat(&dims);
            let bj = jets(&lay, &alg, &bf);
            let mut acc = jzero(&alg);
            for b in &bj {
                acc = acc.add(&b.mul(b));
            }
            let want = match acc.apply(ndv_oracle::Fun::Sqrt) {
                Some(w) => w,
                None => return Ok((1.0, false)),
            };
            let c = compare::<f64>(&lay, &alg, &got, &want, K, false, "norm");
            if let Some((sig, why)) = c.fail {
                return Err(Verdict::Fail { sig: format!("C12/{sig}"), why: format!("norm on {tname}: {why}") });
            }
            Ok((1.0, n >= 2))
        }
        _ => {
            // singular stratum: must be reported, never non-finite output
            let re = singular_matrix(case, n);
            let m = build_matrix(&lay, &re, &case.parts, false, scale_of(case));
            match LU::new(to_arr2(&m)) {
                Err(_) => {
                    st.class("singular matrix reported by the crate's LU");
                    Ok((f64::INFINITY, n >= 2))
                }
                Ok(lu) => {
                    // a zero pivot was missed: the output must at least be finite... it cannot be for a singular matrix
                    let det = lu.determinant().to_flat(&dims);
                    Err(fail("C12/own-lu/singular-not-reported".into(), format!("LU::new accepted a matrix whose real part is exactly singular (determinant {:?})", det.vals), &m))
                }
            }
        }
    }
}

fn na<T>(case: &Case, st: &mut Stats) -> Res
where
    T: Ty<F = f64> + DualNum<f64> + RealField,
{
    let dims = [0usize, 0];
    let lay = T::layout(&dims);
    let alg = lay.alg();
    let n = (case.n as usize % 6) + 1;
    let tname = T::tname(&dims);
    ndv_oracle::ring::set_unit(<f64 as Flt>::U);
    let to_dm = |m: &Mat| DMatrix::from_fn(n, n, |i, j| T::from_flat(&dims, &m.flats[i * n + j]));
    let fail = |sig: String, why: String, m: &Mat| Verdict::Fail { sig, why: format!("{why}; type {tname} (nalgebra), n = {n}, matrix real parts {:?}", m.flats.iter().map(|f| f.vals[0]).collect::<Vec<_>>()) };
    let bf: Vec<Flat> = (0..n).map(|i| entry_flat(&lay, case.rhs[i % case.rhs.len()], &case.parts, 100 + i, None)).collect();
    let pmax = case.parts.iter().fold(1.0f64, |a, b| a.max(b.abs())).min(4.0);
    match case.routine {
        Routine::NaSolve | Routine::NaInverse | Routine::NaDet => {
            let (re, kappa, _odd, swapped) = general_matrix(case, n);
            let s = scale_of(case);
            let m = build_matrix(&lay, &re, &case.parts, false, s);
            let a = to_dm(&m);
            let aj = jets(&lay, &alg, &m.flats);
            let factor = |o: u8| 64.0 * n as f64 * (1.0 + kappa).powi(1 + o as i32);
            let r = match case.routine {
                Routine::NaSolve => {
                    let b = DVector::from_fn(n, |i, _| T::from_flat(&dims, &bf[i]));
                    let x = match a.lu().solve(&b) {
                        Some(x) => x,
                        None => return Err(fail("C12/na-lu/false-singular".into(), format!("nalgebra LU solve fails for condition number {kappa:.3}"), &m)),
                    };
                    let xj = jets(&lay, &alg, &x.iter().map(|v| v.to_flat(&dims)).collect::<Vec<_>>());
                    let bj = jets(&lay, &alg, &bf);
                    check_residual("na-lu-solve", &resid_axb(&alg, &aj, &xj, &bj, n), &lay, &alg, &factor, pmax, 1.0)
                }
                Routine::NaInverse => {
                    let inv = match a.try_inverse() {
                        Some(i) => i,
                        None => return Err(fail("C12/na-inverse/false-singular".into(), format!("try_inverse fails for condition number {kappa:.3}"), &m)),
                    };
                    let ij = jets(&lay, &alg, &(0..n * n).map(|k| inv[(k / n, k % n)].to_flat(&dims)).collect::<Vec<_>>());
                    let mut res = vec![];
                    for i in 0..n {
                        for j in 0..n {
                            let mut acc = jzero(&alg);
                            for k in 0..n {
                                acc = acc.add(&aj[i * n + k].mul(&ij[k * n + j]));
                            }
                            if i == j {
                                acc = acc.add_scalar(-R::ONE);
                            }
                            res.push(acc);
                        }
                    }
                    check_residual("na-inverse", &res, &lay, &alg, &factor, pmax, 1.0)
                }
                _ => {
                    let det = a.determinant().to_flat(&dims);
                    let want = leibniz_det(&alg, &aj, n);
                    let dj = lay.embed(&alg, &det.vals, &det.pres);
                    let mut diff = dj.sub(&want);
                    for (c, w) in diff.c.iter_mut().zip(&want.c) {
                        c.m = w.m.max(c.m);
                    }
                    check_residual("na-determinant", &[diff], &lay, &alg, &factor, pmax, s.powi(n as i32))
                }
            };
            match r {
                Ok(rs) => {
                    for o in 0..=lay.max_order().min(4) {
                        st.ratio(&format!("{:?}/order{o}: residual/(n u (1+kappa)^(1+o) m)", case.routine), rs.by_order[o] / (n as f64 * (1.0 + kappa).powi(1 + o as i32)));
                    }
                    Ok((kappa, n >= 3 && swapped))
                }
                Err((sig, why)) => Err(fail(sig, why, &m)),
            }
        }
        Routine::NaEigen => {
            let (re, gap, nrm) = if case.eqdiag != 0 {
                match eqdiag_matrix(case, n) {
                    Some(r) => r,
                    None => return Ok((1.0, false)),
                }
            } else {
                symmetric_matrix(case, n)
            };
            let m = build_matrix(&lay, &re, &case.parts, true, 1.0);
            let a = to_dm(&m);
            let eig = a.symmetric_eigen();
            // KNOWN finding K2: non-finite derivative parts when an off-diagonal REAL part is exactly zero
            // (nalgebra tests `is_zero()` / divides by quantities whose real part vanishes)
            // ... or when all diagonal real parts are bit-equal (the 2x2 blocks nalgebra works on then have
            // equal diagonal or vanishing off-diagonal REAL parts, and sqrt / hypot of a number with zero
            // real part and non-zero derivative part has no finite derivative)
            let const_diag = n >= 2 && (1..n).all(|i| re[i][i].to_bits() == re[0][0].to_bits());
            let exact_zero_offdiag = const_diag || (0..n).any(|i| (0..n).any(|j| i != j && re[i][j] == 0.0));
            let nonfinite = eig.eigenvalues.iter().chain(eig.eigenvectors.iter()).any(|x| x.to_flat(&dims).vals.iter().any(|v| !v.is_finite()));
            if nonfinite && exact_zero_offdiag && n >= 2 {
                st.known_hit("C12/na-symmetric-eigen/nonfinite-diagonal-real-part", || serde_json::to_value(case).unwrap_or_default());
                return Ok((1.0, false));
            }
            let aj = jets(&lay, &alg, &m.flats);
            let lj = jets(&lay, &alg, &eig.eigenvalues.iter().map(|x| x.to_flat(&dims)).collect::<Vec<_>>());
            let vj = jets(&lay, &alg, &(0..n * n).map(|k| eig.eigenvectors[(k / n, k % n)].to_flat(&dims)).collect::<Vec<_>>());
            let mut res = vec![];
            for i in 0..n {
                for j in 0..n {
                    let mut acc = jzero(&alg);
                    for k in 0..n {
                        acc = acc.add(&aj[i * n + k].mul(&vj[k * n + j]));
                    }
                    res.push(acc.sub(&vj[i * n + j].mul(&lj[j])));
                }
            }
            for i in 0..n {
                for j in 0..n {
                    let mut acc = jzero(&alg);
                    for k in 0..n {
                        acc = acc.add(&vj[k * n + i].mul(&vj[k * n + j]));
                    }
                    if i == j {
                        acc = acc.add_scalar(-R::ONE);
                    }
                    res.push(acc);
                }
            }
            // real part: nalgebra's own accuracy (iteration truncated at ~1e-11 relative)
            let amp = 1.0 + nrm / gap;
            let strict = |o: u8| 64.0 * n as f64 * amp.powi(1 + 2 * o as i32);
            let real_only = |o: u8| if o == 0 { 1.0e7 * amp } else { f64::INFINITY };
            match check_residual("na-symmetric-eigen", &res, &lay, &alg, &real_only, pmax, 1.0) {
                Ok(rs) => {
                    st.ratio("NaEigen/order0: residual/(u amp m)", rs.by_order[0] / amp);
                    // derivative parts: conditioning-scaled tolerance of the property; beyond it the
                    // case is an occurrence of the KNOWN finding (nalgebra stops iterating when the
                    // REAL parts have converged, because num-dual compares by the real part only)
                    let beyond = (1..=lay.max_order().min(4)).any(|o| rs.by_order[o] > strict(o as u8));
                    for o in 1..=lay.max_order().min(4) {
                        st.ratio(&format!("NaEigen/order{o}: residual/(n u amp^(1+2o) m)"), rs.by_order[o] / (n as f64 * amp.powi(1 + 2 * o as i32)));
                    }
                    if beyond {
                        st.known_hit("C12/na-symmetric-eigen/derivative-parts", || serde_json::to_value(case).unwrap_or_default());
                        return Ok((amp, false));
                    }
                    Ok((amp, n >= 3))
                }
                Err((sig, why)) => Err(fail(sig, format!("{why} (eigenvalue gap {gap:.3})"), &m)),
            }
        }
        _ => {
            let re = singular_matrix(case, n);
            let m = build_matrix(&lay, &re, &case.parts, false, scale_of(case));
            let a = to_dm(&m);
            let inv = a.clone().try_inverse();
            let b = DVector::from_fn(n, |i, _| T::from_flat(&dims, &bf[i]));
            let sol = a.clone().lu().solve(&b);
            let invertible = a.clone().lu().is_invertible();
            let finite = |fl: Vec<Flat>| fl.iter().all(|f| f.vals.iter().all(|v| v.is_finite()));
            if let Some(i) = &inv {
                if !finite(i.iter().map(|v| v.to_flat(&dims)).collect()) {
                    return Err(fail("C12/na-inverse/nonfinite".into(), "try_inverse of an exactly singular matrix returned non-finite entries".into(), &m));
                }
            }
            if let Some(x) = &sol {
                if !finite(x.iter().map(|v| v.to_flat(&dims)).collect()) {
                    return Err(fail("C12/na-lu/nonfinite".into(), "LU solve of an exactly singular matrix returned non-finite entries".into(), &m));
                }
            }
            if inv.is_some() || sol.is_some() || invertible {
                return Err(fail(
                    "C12/na/singular-not-reported".into(),
                    format!("an exactly singular real part is not reported: try_inverse {}, lu.solve {}, is_invertible {}", if inv.is_some() { "Some" } else { "None" }, if sol.is_some() { "Some" } else { "None" }, invertible),
                    &m,
                ));
            }
            st.class("singular matrix reported by nalgebra's generic LU");
            Ok((f64::INFINITY, n >= 2))
        }
    }
}

fn dispatch_case(case: &Case, st: &mut Stats) -> Res {
    use Routine::*;
    match case.routine {
        OwnSolve | OwnInverse | OwnDet | OwnEigen | OwnNorm | OwnSingular => match case.ty % 7 {
            0 => own::<Dual64>(case, st),
            1 => own::<Dual2_64>(case, st),
            2 => own::<DualSVec64<2>>(case, st),
            3 => own::<HyperDual64>(case, st),
            4 => own::<Dual3_64>(case, st),
            5 => own::<Dual<Dual64, f64>>(case, st),
            _ => own::<Dual2<Dual64, f64>>(case, st),
        },
        _ => match case.ty % 4 {
            0 => na::<Dual64>(case, st),
            1 => na::<Dual2_64>(case, st),
            2 => na::<DualSVec64<2>>(case, st),
            _ => na::<Dual2SVec64<2>>(case, st),
        },
    }
}

impl Property for C12 {
    type Case = Case;
    const ID: &'static str = "C12";
    fn strategy(_tier: Tier) -> BoxedStrategy<Case> {
        use Routine::*;
        let routine = prop_oneof![
            3 => Just(OwnSolve), 2 => Just(OwnInverse), 2 => Just(OwnDet), 3 => Just(OwnEigen), 1 => Just(OwnNorm), 1 => Just(OwnSingular),
            3 => Just(NaSolve), 2 => Just(NaInverse), 2 => Just(NaDet), 2 => Just(NaEigen), 1 => Just(NaSingular),
        ];
        (
            (routine, any::<u8>(), prop_oneof![1 => 0u8..2, 5 => 2u8..6], proptest::bool::weighted(0.2), any::<u8>()),
            proptest::collection::vec(0.0f64..1.0, 40),
            proptest::collection::vec(0.0f64..1.0, 6),
            proptest::collection::vec(any::<u8>(), 36),
            proptest::collection::vec(part_value(), 64),
            proptest::collection::vec(-3.0f64..3.0, 6),
            (prop_oneof![2 => Just(0i8), 1 => -60i8..=60], prop_oneof![4 => Just(0u8), 1 => 1u8..=255]),
        )
            .prop_map(|((routine, ty, n, high_kappa, sing), angles, sv, perm, parts, rhs, (scale2, eqdiag))| Case { routine, ty, n, angles, sv, perm, high_kappa, parts, rhs, sing, scale2, eqdiag })
            .boxed()
    }
    fn check(case: &Case, st: &mut Stats) -> Verdict {
        if case.angles.is_empty() || case.sv.is_empty() || case.perm.is_empty() || case.parts.is_empty() || case.rhs.is_empty() || case.angles.iter().chain(&case.sv).any(|x| !x.is_finite() || *x < 0.0 || *x > 1.0) || case.parts.iter().chain(&case.rhs).any(|x| !x.is_finite() || x.abs() > 1e3) {
            return Verdict::Trivial("malformed case");
        }
        match dispatch_case(case, st) {
            Err(v) => v,
            Ok((_scale, nontrivial)) => {
                st.class(&format!("routine:{:?}", case.routine));
                st.class(&format!("n={}", case.n as usize % 6 + 1));
                let nz = case.parts.iter().filter(|p| **p != 0.0).count() >= 2;
                if nontrivial && nz && st.wants_sample() {
                    st.sample(|| json!({"routine": format!("{:?}", case.routine), "type_index": case.ty, "n": case.n as usize % 6 + 1, "high_condition_number": case.high_kappa}));
                }
                Verdict::Pass { nontrivial: nontrivial && nz }
            }
        }
    }
    /// deterministic occurrences of the known findings K1 / K2 (nalgebra's symmetric_eigen on a
    /// diagonal real part with dual off-diagonal elements) and their repaired counterpart in the crate
    fn fixed_cases() -> Vec<Case> {
        let mut v = vec![];
        for (routine, ty) in [(Routine::NaEigen, 0u8), (Routine::NaEigen, 1), (Routine::NaEigen, 3), (Routine::OwnEigen, 0), (Routine::OwnEigen, 4), (Routine::OwnEigen, 6)] {
            for n in [1u8, 2, 4] {
                v.push(Case {
                    routine,
                    ty,
                    n,
                    angles: vec![0.125, 0.3, 0.7, 0.45],
                    sv: vec![0.5, 0.25, 0.75, 0.1, 0.9, 0.4],
                    perm: vec![3, 1, 4, 1, 5, 9, 2, 6],
                    high_kappa: true,
                    parts: vec![1.5, -0.75, 2.0, 0.625, -1.25, 3.0, -0.5, 1.0, 0.25, -2.0, 0.875, 1.75, -3.0, 0.375, 2.5, -1.5, 0.5],
                    rhs: vec![1.0, -2.0, 0.5],
                    sing: 0,
                    scale2: 0,
                    eqdiag: 0,
                });
            }
        }
        v
    }
    fn cases(tier: Tier) -> u64 {
        match tier {
            Tier::Quick => 400_000,
            Tier::Thorough => 10_000_000,
        }
    }
    fn rule() -> String {
        "generated: size n in 1..6; general matrices P (Q1 D Q2) with Givens-product orthogonal factors, singular values in [0.5,2] (condition number <= 4 known by construction; 20%: up to 1e4) and a random row permutation (pivoting paths, both parities); symmetric matrices Q L Q^T with eigenvalue gaps >= 0.25 (20%: real part already diagonal or block-diagonal, only the derivative parts couple; another 20%: a constant diagonal a I + B with hollow dyadic B - tridiagonal, full or block-structured - whose eigenvalue gap is computed by a plain-float Jacobi iteration of the harness, gap >= 0.2); every entry carries arbitrary derivative parts (symmetric for the eigen routines); right-hand sides; the ndarray inputs of the crate's own routines come in row-major, column-major, reversed-axes and sliced-then-owned layout; one case in three multiplies the whole matrix (real and derivative parts) by 2^k, |k| <= 60 (exact; all routines are scale-covariant, nalgebra's symmetric_eigen excepted from scaling); scalar types Dual64, Dual2_64, DualSVec64<2>, HyperDual64, Dual3_64 and the nested Dual<Dual64>, Dual2<Dual64> for the crate's own LU / Jacobi / norm and Dual64, Dual2_64, DualSVec64<2>, Dual2SVec64<2> for nalgebra's generic LU, inverse, determinant, symmetric_eigen; singular stratum: exact dyadic matrices with a zero column / repeated row / dependent row and non-zero derivative parts. Oracle = validity predicates evaluated in the reference algebra on the library's output: A x = b, A A^-1 = I, det = Leibniz expansion (all parts, which contains Jacobi's formula), A V = V diag(lambda), V^T V = I, lambda ascending (crate Jacobi), which contains Hellmann-Feynman; tolerance 64 n u (1+kappa)^(1+order) * (summed magnitude of the identity's terms) for the direct methods, crate Jacobi 64 n u amp^(1+2 order) with amp = 1 + norm/gap; nalgebra symmetric_eigen: real part 1e7 u amp (its own accuracy), derivative parts 64 n u amp^(1+2 order) - cases beyond that are occurrences of the KNOWN finding C12/na-symmetric-eigen/derivative-parts (excluded and counted); the singular stratum must be reported (Err / None / false) and never yield non-finite output. Non-trivial: n >= 3, a row swap happened, non-zero derivative parts.".into()
    }
    fn assumptions() -> Vec<String> {
        vec![
            "the iterative eigen routines are only checked to their calibrated accuracy (still catches O(1) errors of the field-trait implementations they run on)".into(),
            "bounded condition number / eigenvalue gap by construction".into(),
        ]
    }
}
