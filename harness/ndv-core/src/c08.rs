//! C08 - all syntactic forms of an operation give the same result.

use crate::c02::{check_op, Op2};
use crate::common::*;
use crate::engine::*;
use crate::registry::{dispatch_ref, TyVisitorRef, TYPES};
use crate::types::{Flat, Flt, Ty};
use num_dual::DualNum;
use num_traits::{FloatConst, FromPrimitive, Inv, One, Zero};
use proptest::prelude::*;
use serde::{Deserialize, Serialize};
use serde_json::json;
use std::iter::{Product, Sum};
use std::ops::{Add, Div, Mul, Neg, Sub};

pub const NFAM: u8 = 16;

#[derive(Clone, Debug, Serialize, Deserialize)]
pub struct Case {
    pub ty: usize,
    pub dims: (u8, u8),
    pub fam: u8,
    pub ra: f64,
    pub rb: f64,
    pub rc: f64,
    pub a: Vec<f64>,
    pub b: Vec<f64>,
    pub c: Vec<f64>,
    pub pres_a: Vec<bool>,
    pub pres_b: Vec<bool>,
    pub zero: Vec<bool>,
    pub s: f64,
    pub n: i64,
    pub len: u8,
    /// wide-magnitude scalar for the multiplicative scalar families: 0 = off, otherwise the scalar is
    /// +-10^(ws * 290) (f32: 10^(ws * 30)), ws in (-1, 1)
    #[serde(default)]
    pub ws: f64,
    #[serde(default)]
    pub wneg: bool,
}

pub struct C08;
struct V<'a> {
    case: &'a Case,
    st: &'a mut Stats,
}

fn same(a: f64, b: f64) -> bool {
    a == b || (a.is_nan() && b.is_nan())
}

fn differ<T: Ty>(dims: &[usize], x: &T, y: &T, rel: f64) -> Option<(usize, f64, f64)> {
    let (fx, fy) = (x.to_flat(dims), y.to_flat(dims));
    for i in 0..fx.vals.len() {
        let (p, q) = (fx.vals[i], fy.vals[i]);
        let ok = if rel == 0.0 { same(p, q) } else { same(p, q) || (p - q).abs() <= rel * p.abs().max(q.abs()) + <T::F as Flt>::FLOOR };
        if !ok {
            return Some((i, p, q));
        }
    }
    None
}

macro_rules! expect_same {
    ($dims:expr, $lay:expr, $base:expr, $alt:expr, $rel:expr, $fam:expr, $form:expr, $ctx:expr) => {
        if let Some((slot, p, q)) = differ::<T>($dims, &$base, &$alt, $rel) {
            return Verdict::Fail {
                sig: format!("C08/{}/{}", $fam, $form),
                why: format!("{}: form `{}` gives {:e} in part {} but the reference form gives {:e}; {}", T::tname($dims), $form, q, $lay.slots[slot].name, p, $ctx),
            };
        }
    };
}

/// family 15: `from_inner` lifts a value of the inner number type to a constant of the outer type: the
/// real block is the inner value with all of its parts, every other part is zero; `re()` is the
/// innermost real part
struct VInner<'a> {
    case: &'a Case,
    st: &'a mut Stats,
}
impl<'a> crate::registry::TyVisitorInner for VInner<'a> {
    type Out = Verdict;
    fn visit<T>(self, dims: &[usize]) -> Verdict
    where
        T: Ty + DualNum<<T as Ty>::F>,
        <T as DualNum<<T as Ty>::F>>::Inner: Ty<F = <T as Ty>::F>,
    {
        let case = self.case;
        let lay = T::layout(dims);
        let ilay = <<T as DualNum<T::F>>::Inner as Ty>::layout(dims);
        let fi = make_flat::<T::F>(&ilay, case.ra, &case.a, &case.pres_a, &case.zero);
        let inner = <<T as DualNum<T::F>>::Inner as Ty>::from_flat(dims, &fi);
        let x = T::from_inner(inner);
        let fx = x.to_flat(dims);
        for (i, s) in lay.slots.iter().enumerate() {
            let want = if s.name == "re" {
                fi.vals[0]
            } else if let Some(suffix) = s.name.strip_prefix("re.") {
                match ilay.slots.iter().position(|t| t.name == suffix) {
                    Some(k) => {
                        if ilay.slot_present(k, &fi.pres) {
                            fi.vals[k]
                        } else {
                            0.0
                        }
                    }
                    None => return Verdict::Fail { sig: "HARNESS-BUG/from_inner-layout".into(), why: format!("no inner slot {suffix} for {}", T::tname(dims)) },
                }
            } else {
                0.0
            };
            if !same(fx.vals[i], want) {
                return Verdict::Fail {
                    sig: "C08/from_inner".into(),
                    why: format!("{}::from_inner({}) has part {} = {:e}, expected {:e} (the inner value as real part, all other parts zero)", T::tname(dims), flat_json(&ilay, &fi), s.name, fx.vals[i], want),
                };
            }
        }
        if x.re().to64() != fi.vals[0] {
            return Verdict::Fail { sig: "C08/from_inner/re".into(), why: format!("{}::from_inner(..).re() = {:e}, expected {:e}", T::tname(dims), x.re().to64(), fi.vals[0]) };
        }
        self.st.class("from_inner");
        Verdict::Pass { nontrivial: T::levels() > 1 && nonzero_parts(&ilay, &fi, 1) >= 1 }
    }
}

impl<'a> TyVisitorRef for V<'a> {
    type Out = Verdict;
    fn visit<T>(self, dims: &[usize]) -> Verdict
    where
        T: Ty + DualNum<<T as Ty>::F> + FloatConst,
        T: for<'x> Sum<&'x T> + for<'x> Product<&'x T>,
        for<'x> &'x T: Add<&'x T, Output = T>
            + Sub<&'x T, Output = T>
            + Mul<&'x T, Output = T>
            + Div<&'x T, Output = T>
            + Add<T, Output = T>
            + Sub<T, Output = T>
            + Mul<T, Output = T>
            + Div<T, Output = T>
            + Neg<Output = T>,
    {
        let case = self.case;
        let st = self.st;
        let lay = T::layout(dims);
        ndv_oracle::ring::set_unit(<T::F as Flt>::U);
        let u = <T::F as Flt>::U;
        let fix = |x: f64| if x.abs() < 1e-2 { if x < 0.0 { x - 0.5 } else { x + 0.5 } } else { x };
        let fa = make_flat::<T::F>(&lay, case.ra, &case.a, &case.pres_a, &case.zero);
        let fb = make_flat::<T::F>(&lay, fix(case.rb), &case.b, &case.pres_b, &[false]);
        let fc = make_flat::<T::F>(&lay, case.rc, &case.c, &case.pres_b, &case.zero);
        let a = T::from_flat(dims, &fa);
        let b = T::from_flat(dims, &fb);
        let c = T::from_flat(dims, &fc);
        let mut s = round_to::<T::F>(case.s);
        let sf = <T::F as Flt>::from64;
        let ctx = || format!("a = {}, b = {}, s = {}", flat_json(&lay, &fa), flat_json(&lay, &fb), case.s);
        let fam = case.fam % NFAM;
        let rich = nonzero_parts(&lay, &fa, 1) >= 2 && nonzero_parts(&lay, &fb, 1) >= 2;
        let mut nontrivial = rich;
        match fam {
            0..=3 => {
                let name = ["add", "sub", "mul", "div"][fam as usize];
                let base = match fam {
                    0 => a.clone() + b.clone(),
                    1 => a.clone() - b.clone(),
                    2 => a.clone() * b.clone(),
                    _ => a.clone() / b.clone(),
                };
                let rr = match fam {
                    0 => &a + &b,
                    1 => &a - &b,
                    2 => &a * &b,
                    _ => &a / &b,
                };
                let or = match fam {
                    0 => a.clone() + &b,
                    1 => a.clone() - &b,
                    2 => a.clone() * &b,
                    _ => a.clone() / &b,
                };
                let ro = match fam {
                    0 => &a + b.clone(),
                    1 => &a - b.clone(),
                    2 => &a * b.clone(),
                    _ => &a / b.clone(),
                };
                let mut asg = a.clone();
                match fam {
                    0 => asg += b.clone(),
                    1 => asg -= b.clone(),
                    2 => asg *= b.clone(),
                    _ => asg /= b.clone(),
                }
                expect_same!(dims, lay, base, rr, 0.0, name, "&a op &b", ctx());
                expect_same!(dims, lay, base, or, 0.0, name, "a op &b", ctx());
                expect_same!(dims, lay, base, ro, 0.0, name, "&a op b", ctx());
                expect_same!(dims, lay, base, asg, 0.0, name, "a op= b", ctx());
                // and the base form is right (so that "all forms equally wrong" cannot pass)
                let op = [Op2::Add, Op2::Sub, Op2::Mul, Op2::Div][fam as usize];
                let mut tmp = Stats::new();
                tmp.frozen = true;
                match check_op::<T>(dims, op, &fa, &fb, false, &mut tmp, &lay) {
                    Verdict::Fail { sig, why } => return Verdict::Fail { sig: sig.replace("C02", "C08"), why },
                    Verdict::Trivial(r) => return Verdict::Trivial(r),
                    _ => {}
                }
            }
            4 => {
                let base = -a.clone();
                let r = -&a;
                expect_same!(dims, lay, base, r, 0.0, "neg", "-&a", ctx());
                let z = T::zero() - a.clone();
                expect_same!(dims, lay, base, z, 0.0, "neg", "0 - a", ctx());
            }
            7 | 8 if case.ws != 0.0 => {
                // wide-magnitude scalar: every part of a*s (a/s) is the correctly rounded product
                // (quotient) of the part and the scalar - the result is representable although 1/s^2 need not be
                let is32 = <T::F as Flt>::IS32;
                // exponent range in which 1/s^(order+1) is representable (needed by the dual-dual form; on nested
                // types also by the scalar form, which divides the inner dual numbers by the lifted scalar)
                let lim = if is32 { 34.0 } else { 290.0 } / (lay.alg().depth() as f64 * if T::levels() > 1 { 2.0 } else { 1.0 } + 1.0);
                let full = if is32 { 30.0 } else { 290.0 };
                let e = case.ws.clamp(-1.0, 1.0) * if T::levels() > 1 { lim * 0.95 } else { full };
                let sw = round_to::<T::F>(if case.wneg { -(10f64.powf(e)) } else { 10f64.powf(e) });
                let name = if fam == 7 { "mul_scalar" } else { "div_scalar" };
                let owned = if fam == 7 { a.clone() * sf(sw) } else { a.clone() / sf(sw) };
                let mut asg = a.clone();
                if fam == 7 {
                    asg *= sf(sw);
                } else {
                    asg /= sf(sw);
                }
                let ctxw = || format!("a = {}, s = {:e}", flat_json(&lay, &fa), sw);
                expect_same!(dims, lay, owned, asg, 0.0, name, "a op= s (wide scalar)", ctxw());
                let fo = owned.to_flat(dims);
                let (tiny, huge) = if is32 { (1e-36, 1e37) } else { (1e-305, 1e306) };
                for (i, part) in fa.vals.iter().enumerate() {
                    let present = lay.slot_present(i, &fa.pres);
                    let p = if present { *part } else { 0.0 };
                    let want = if fam == 7 { p * sw } else { p / sw };
                    if want != 0.0 && !(want.abs() > tiny && want.abs() < huge) {
                        continue;
                    }
                    let got = fo.vals[i];
                    // one rounding on the plain types; on nested types the inner dual-dual division takes a few more
                    if !((got - want).abs() <= if T::levels() > 1 { 16.0 } else { 4.0 } * u * want.abs()) {
                        return Verdict::Fail {
                            sig: format!("C08/{name}/wide-scalar"),
                            why: format!("{}: part {} of `a {} s` is {:e} but part {} s = {:e}; {}", T::tname(dims), lay.slots[i].name, if fam == 7 { "*" } else { "/" }, got, if fam == 7 { "*" } else { "/" }, want, ctxw()),
                        };
                    }
                }
                // the dual-dual form with the lifted scalar, while 1/s^(order+1) is representable
                if e.abs() < lim {
                    let lifted = T::from(sf(sw));
                    let base = if fam == 7 { a.clone() * lifted } else { a.clone() / lifted };
                    expect_same!(dims, lay, base, owned, 16.0 * u, name, "a op s (wide scalar)", ctxw());
                    st.class("wide scalar: compared with the lifted dual-dual form");
                }
                st.class("wide-magnitude scalar");
                nontrivial = nonzero_parts(&lay, &fa, 1) >= 2;
            }
            5..=8 => {
                if s == 0.0 {
                    s = 0.75;
                }
                let name = ["add_scalar", "sub_scalar", "mul_scalar", "div_scalar"][(fam - 5) as usize];
                let lifted = T::from(sf(s));
                let (base, owned, mut asg) = (
                    match fam {
                        5 => a.clone() + lifted.clone(),
                        6 => a.clone() - lifted.clone(),
                        7 => a.clone() * lifted.clone(),
                        _ => a.clone() / lifted.clone(),
                    },
                    match fam {
                        5 => a.clone() + sf(s),
                        6 => a.clone() - sf(s),
                        7 => a.clone() * sf(s),
                        _ => a.clone() / sf(s),
                    },
                    a.clone(),
                );
                match fam {
                    5 => asg += sf(s),
                    6 => asg -= sf(s),
                    7 => asg *= sf(s),
                    _ => asg /= sf(s),
                }
                // additive forms agree exactly, multiplicative ones to rounding (a/s vs a*(1/s))
                let rel = if fam <= 6 { 0.0 } else { 16.0 * u };
                expect_same!(dims, lay, base, owned, rel, name, "a op s", ctx());
                expect_same!(dims, lay, owned, asg, 0.0, name, "a op= s", ctx());
                // the lifted scalar is a constant
                let fl = lifted.to_flat(dims);
                if fl.vals[0] != round_to::<T::F>(s) || fl.vals[1..].iter().any(|v| *v != 0.0) {
                    return Verdict::Fail { sig: "C08/from_scalar/not-constant".into(), why: format!("{}::from({s}) = {}", T::tname(dims), flat_json(&lay, &fl)) };
                }
                nontrivial = nonzero_parts(&lay, &fa, 1) >= 2 && s != 1.0 && s != -1.0;
            }
            9 => {
                let base = b.recip();
                let i = b.clone().inv();
                expect_same!(dims, lay, base, i, 0.0, "inv", "inv()", ctx());
            }
            10 | 11 => {
                // iterator lengths 0..=9 (the five base items, then variations of them)
                let n = (case.len % 10) as usize;
                let base_items = [a.clone(), b.clone(), c.clone(), a.clone() * sf(0.5), b.clone() + sf(1.0)];
                let items: Vec<T> = (0..n).map(|i| if i < 5 { base_items[i].clone() } else { base_items[i - 5].clone() * sf(1.25) - sf(0.25 * i as f64) }).collect();
                if fam == 10 {
                    let base = items.iter().cloned().fold(T::zero(), |acc, x| acc + x);
                    let owned: T = items.iter().cloned().sum();
                    let borrowed: T = items.iter().sum();
                    expect_same!(dims, lay, base, owned, 0.0, "sum", "Sum<T>", ctx());
                    expect_same!(dims, lay, base, borrowed, 0.0, "sum", "Sum<&T>", ctx());
                    // iterators that promise nothing about their length (size_hint lower bound 0) and
                    // iterators that over-promise nothing either: filter, flat_map, from_fn, take_while, chain
                    let f1: T = items.iter().cloned().filter(|_| true).sum();
                    let f2: T = items.iter().filter(|_| true).sum();
                    let f3: T = items.iter().flat_map(|x| std::iter::once(x.clone())).sum();
                    let mut k = 0;
                    let f4: T = std::iter::from_fn(|| {
                        k += 1;
                        items.get(k - 1).cloned()
                    })
                    .sum();
                    let f5: T = items.iter().take_while(|_| true).sum();
                    let (l, r) = items.split_at(n / 2);
                    let f6: T = l.iter().chain(r.iter()).sum();
                    expect_same!(dims, lay, base, f1, 0.0, "sum", "Sum<T> over filter", ctx());
                    expect_same!(dims, lay, base, f2, 0.0, "sum", "Sum<&T> over filter", ctx());
                    expect_same!(dims, lay, base, f3, 0.0, "sum", "Sum<T> over flat_map", ctx());
                    expect_same!(dims, lay, base, f4, 0.0, "sum", "Sum<T> over from_fn", ctx());
                    expect_same!(dims, lay, base, f5, 0.0, "sum", "Sum<&T> over take_while", ctx());
                    expect_same!(dims, lay, base, f6, 0.0, "sum", "Sum<&T> over chain", ctx());
                } else {
                    let base = items.iter().cloned().fold(T::one(), |acc, x| acc * x);
                    let owned: T = items.iter().cloned().product();
                    let borrowed: T = items.iter().product();
                    expect_same!(dims, lay, base, owned, 0.0, "product", "Product<T>", ctx());
                    expect_same!(dims, lay, base, borrowed, 0.0, "product", "Product<&T>", ctx());
                    let f1: T = items.iter().cloned().filter(|_| true).product();
                    let f2: T = items.iter().filter(|_| true).product();
                    let f3: T = items.iter().flat_map(|x| std::iter::once(x.clone())).product();
                    let mut k = 0;
                    let f4: T = std::iter::from_fn(|| {
                        k += 1;
                        items.get(k - 1).cloned()
                    })
                    .product();
                    let (l, r) = items.split_at(n / 2);
                    let f6: T = l.iter().chain(r.iter()).product();
                    expect_same!(dims, lay, base, f1, 0.0, "product", "Product<T> over filter", ctx());
                    expect_same!(dims, lay, base, f2, 0.0, "product", "Product<&T> over filter", ctx());
                    expect_same!(dims, lay, base, f3, 0.0, "product", "Product<T> over flat_map", ctx());
                    expect_same!(dims, lay, base, f4, 0.0, "product", "Product<T> over from_fn", ctx());
                    expect_same!(dims, lay, base, f6, 0.0, "product", "Product<&T> over chain", ctx());
                }
                st.class(&format!("iterator length {n}"));
                nontrivial = rich && n >= 2;
            }
            12 if case.n % 2 == 0 => {
                // the in-place constructors of Zero / One leave a CONSTANT behind
                let mut z = a.clone();
                Zero::set_zero(&mut z);
                expect_same!(dims, lay, T::zero(), z, 0.0, "set_zero", "x.set_zero()", ctx());
                let mut o = b.clone();
                One::set_one(&mut o);
                expect_same!(dims, lay, T::one(), o, 0.0, "set_one", "x.set_one()", ctx());
                // ... and the accumulator idiom built on them
                let mut acc = a.clone();
                Zero::set_zero(&mut acc);
                acc += b.clone();
                expect_same!(dims, lay, T::zero() + b.clone(), acc, 0.0, "set_zero", "x.set_zero(); x += b", ctx());
                nontrivial = nonzero_parts(&lay, &fa, 1) >= 1;
            }
            12 => {
                let base = a.clone() * b.clone() + c.clone();
                let m = a.mul_add(b.clone(), c.clone());
                expect_same!(dims, lay, base, m, 0.0, "mul_add", "mul_add", ctx());
            }
            13 => {
                let n = case.n;
                let want = |x: f64| -> Flat {
                    let mut f = T::zero().to_flat(dims);
                    f.vals[0] = round_to::<T::F>(x);
                    f
                };
                macro_rules! prim {
                    ($m:ident, $t:ty) => {{
                        let v = n as $t;
                        let got = <T as FromPrimitive>::$m(v).map(|x| x.to_flat(dims));
                        let exp = <T::F as FromPrimitive>::$m(v).map(|x| want(Flt::to64(x)));
                        let ok = match (&got, &exp) {
                            (Some(g), Some(e)) => g.vals.iter().zip(&e.vals).all(|(p, q)| same(*p, *q)),
                            (None, None) => true,
                            _ => false,
                        };
                        if !ok {
                            return Verdict::Fail {
                                sig: format!("C08/from_primitive/{}", stringify!($m)),
                                why: format!("{}::{}({}) = {:?}, expected the constant {:?}", T::tname(dims), stringify!($m), v, got.map(|g| g.vals), exp.map(|e| e.vals)),
                            };
                        }
                    }};
                }
                prim!(from_isize, isize);
                prim!(from_i8, i8);
                prim!(from_i16, i16);
                prim!(from_i32, i32);
                prim!(from_i64, i64);
                prim!(from_i128, i128);
                prim!(from_usize, usize);
                prim!(from_u8, u8);
                prim!(from_u16, u16);
                prim!(from_u32, u32);
                prim!(from_u64, u64);
                prim!(from_u128, u128);
                {
                    let v = case.s as f32;
                    let got = <T as FromPrimitive>::from_f32(v).map(|x| x.to_flat(dims));
                    let exp = <T::F as FromPrimitive>::from_f32(v).map(|x| want(Flt::to64(x)));
                    if got.as_ref().map(|g| g.vals.clone()) != exp.as_ref().map(|e| e.vals.clone()) {
                        return Verdict::Fail { sig: "C08/from_primitive/from_f32".into(), why: format!("{}::from_f32({v}) = {:?}, expected {:?}", T::tname(dims), got.map(|g| g.vals), exp.map(|e| e.vals)) };
                    }
                    let v = case.s;
                    let got = <T as FromPrimitive>::from_f64(v).map(|x| x.to_flat(dims));
                    let exp = <T::F as FromPrimitive>::from_f64(v).map(|x| want(Flt::to64(x)));
                    if got.as_ref().map(|g| g.vals.clone()) != exp.as_ref().map(|e| e.vals.clone()) {
                        return Verdict::Fail { sig: "C08/from_primitive/from_f64".into(), why: format!("{}::from_f64({v}) = {:?}, expected {:?}", T::tname(dims), got.map(|g| g.vals), exp.map(|e| e.vals)) };
                    }
                }
                nontrivial = n != 0 && n != 1;
            }
            _ => {
                // constants
                macro_rules! cst {
                    ($name:literal, $lhs:expr, $rhs:expr) => {{
                        let f = ($lhs).to_flat(dims);
                        let want: f64 = Flt::to64($rhs);
                        if f.vals[0].to_bits() != want.to_bits() || f.vals[1..].iter().any(|v| *v != 0.0) {
                            return Verdict::Fail { sig: format!("C08/constant/{}", $name), why: format!("{}::{} = {}, expected the constant {:e} with zero parts", T::tname(dims), $name, flat_json(&lay, &f), want) };
                        }
                    }};
                }
                type Fl<T> = <T as Ty>::F;
                cst!("zero", T::zero(), <Fl<T> as Zero>::zero());
                cst!("one", T::one(), <Fl<T> as One>::one());
                cst!("E", <T as FloatConst>::E(), <Fl<T> as FloatConst>::E());
                cst!("FRAC_1_PI", <T as FloatConst>::FRAC_1_PI(), <Fl<T> as FloatConst>::FRAC_1_PI());
                cst!("FRAC_1_SQRT_2", <T as FloatConst>::FRAC_1_SQRT_2(), <Fl<T> as FloatConst>::FRAC_1_SQRT_2());
                cst!("FRAC_2_PI", <T as FloatConst>::FRAC_2_PI(), <Fl<T> as FloatConst>::FRAC_2_PI());
                cst!("FRAC_2_SQRT_PI", <T as FloatConst>::FRAC_2_SQRT_PI(), <Fl<T> as FloatConst>::FRAC_2_SQRT_PI());
                cst!("FRAC_PI_2", <T as FloatConst>::FRAC_PI_2(), <Fl<T> as FloatConst>::FRAC_PI_2());
                cst!("FRAC_PI_3", <T as FloatConst>::FRAC_PI_3(), <Fl<T> as FloatConst>::FRAC_PI_3());
                cst!("FRAC_PI_4", <T as FloatConst>::FRAC_PI_4(), <Fl<T> as FloatConst>::FRAC_PI_4());
                cst!("FRAC_PI_6", <T as FloatConst>::FRAC_PI_6(), <Fl<T> as FloatConst>::FRAC_PI_6());
                cst!("FRAC_PI_8", <T as FloatConst>::FRAC_PI_8(), <Fl<T> as FloatConst>::FRAC_PI_8());
                cst!("LN_10", <T as FloatConst>::LN_10(), <Fl<T> as FloatConst>::LN_10());
                cst!("LN_2", <T as FloatConst>::LN_2(), <Fl<T> as FloatConst>::LN_2());
                cst!("LOG10_E", <T as FloatConst>::LOG10_E(), <Fl<T> as FloatConst>::LOG10_E());
                cst!("LOG2_E", <T as FloatConst>::LOG2_E(), <Fl<T> as FloatConst>::LOG2_E());
                cst!("PI", <T as FloatConst>::PI(), <Fl<T> as FloatConst>::PI());
                cst!("SQRT_2", <T as FloatConst>::SQRT_2(), <Fl<T> as FloatConst>::SQRT_2());
                // is_zero / is_one of the constants
                if !T::zero().is_zero() || !T::one().is_one() {
                    return Verdict::Fail { sig: "C08/constant/predicates".into(), why: format!("{}: zero().is_zero() or one().is_one() is false", T::tname(dims)) };
                }
                st.count("constants_checked", 18);
                nontrivial = true;
            }
        }
        st.class(&format!("family:{}", ["add", "sub", "mul", "div", "neg", "add_scalar", "sub_scalar", "mul_scalar", "div_scalar", "inv", "sum", "product", "mul_add", "from_primitive", "constants"][fam as usize]));
        st.class(&format!("type:{}", TYPES[case.ty].name));
        if nontrivial && st.wants_sample() {
            st.sample(|| json!({"type": T::tname(dims), "family": fam, "a": flat_json(&lay, &fa), "b": flat_json(&lay, &fb), "scalar": s}));
        }
        Verdict::Pass { nontrivial }
    }
}

impl Property for C08 {
    type Case = Case;
    const ID: &'static str = "C08";
    fn strategy(_tier: Tier) -> BoxedStrategy<Case> {
        let scalar = prop_oneof![3 => -4.0f64..4.0, 1 => (-32i32..=32).prop_map(|k| k as f64 / 8.0), 1 => Just(1.0), 1 => Just(-1.0), 1 => Just(0.0)];
        (
            (0..TYPES.len(), dims_strategy(), 0..NFAM),
            (crate::c03::input_real(), crate::c03::input_real(), crate::c03::input_real()),
            (parts_pool(), parts_pool(), parts_pool()),
            (presence(), proptest::collection::vec(proptest::bool::weighted(0.75), 8)),
            (scalar, prop_oneof![-300i64..300, any::<i64>()], any::<u8>()),
            (prop_oneof![2 => Just(0.0f64), 1 => -1.0f64..1.0], any::<bool>()),
        )
            .prop_map(|((ty, dims, fam), (ra, rb, rc), (a, b, c), ((pres_a, zero), pres_b), (s, n, len), (ws, wneg))| Case { ty, dims, fam, ra, rb, rc, a, b, c, pres_a, pres_b, zero, s, n, len, ws, wneg })
            .boxed()
    }
    fn check(case: &Case, st: &mut Stats) -> Verdict {
        if case.ty >= TYPES.len()
            || case.a.is_empty()
            || case.b.is_empty()
            || case.c.is_empty()
            || case.pres_a.is_empty()
            || case.pres_b.is_empty()
            || case.zero.is_empty()
            || ![case.ra, case.rb, case.rc, case.s].iter().all(|x| x.is_finite() && x.abs() <= 1e3)
            || !case.ws.is_finite()
        {
            return Verdict::Trivial("malformed case");
        }
        let dims = [case.dims.0 as usize % 7, case.dims.1 as usize % 7];
        if case.fam % NFAM == 15 {
            return crate::registry::dispatch_inner(case.ty, &dims, VInner { case, st });
        }
        dispatch_ref(case.ty, &dims, V { case, st })
    }
    fn cases(tier: Tier) -> u64 {
        match tier {
            Tier::Quick => 300_000,
            Tier::Thorough => 5_000_000,
        }
    }
    fn rule() -> String {
        "generated: (type from the 61-type registry, one of 16 form families, operands with arbitrary parts and presence patterns, scalar incl. 0 and +-1, primitive integer incl. extreme i64, iterator length 0..9). Families: a op b vs &a op &b, a op &b, &a op b, a op= b for + - * / (bit-for-bit, and the base form against the reference algebra); -a vs -&a vs 0-a; a op s and a op= s vs a op D::from(s) (additive exact, multiplicative to 16 u per part; one multiplicative-scalar case in three uses a wide-magnitude scalar +-10^e, |e| <= 290 (f32: 30), where every part of the result must be the correctly rounded part*s resp. part/s and the lifted form is compared while 1/s^(order+1) is representable); inv vs recip; Sum / Product over owned and borrowed iterators (incl. empty; slices, filter, flat_map, from_fn, take_while, chain - i.e. also iterators whose size_hint promises nothing) vs folds; default mul_add vs a*b+c; set_zero / set_one (provided methods of Zero / One) leave the constants zero() / one(); From<F> and the 14 FromPrimitive constructors vs the lifted float (constant with zero parts, None exactly when the float conversion is None); Zero, One and the 16 FloatConst constants have the float constant's bits and zero parts; from_inner lifts an arbitrary value of the inner number type (nested types: a dual number with its own parts) to a constant whose real block is that value and whose other parts are zero. Non-trivial: operands with >= 2 non-zero derivative parts, scalar not in {0,+-1}, iterator length >= 2.".into()
    }
    fn assumptions() -> Vec<String> {
        vec!["numerical equality (== on every part, NaN = NaN); presence patterns of the results are not compared (that is C07)".into()]
    }
}
