//! C03 - arbitrary programs of generic operations are differentiated correctly.

use crate::common::*;
use crate::engine::*;
use crate::prog::*;
use crate::registry::{dispatch, TyVisitor, TYPES};
use crate::types::{Flt, Ty};
use num_dual::DualNum;
use proptest::prelude::*;
use serde::{Deserialize, Serialize};
use serde_json::json;

#[derive(Clone, Debug, Serialize, Deserialize)]
pub struct Case {
    pub ty: usize,
    pub dims: (u8, u8),
    /// real parts of the inputs (1..=3)
    pub x: Vec<f64>,
    pub raw: Vec<RawOp>,
    pub parts: Vec<Vec<f64>>,
    pub pres: Vec<Vec<bool>>,
    pub zero: Vec<bool>,
    /// 0: an ordinary program from `raw`; otherwise the selector of a wide-magnitude composition
    /// template (scale the input to |c t| = 10^e, apply one function, multiply with the input)
    #[serde(default)]
    pub wide: u8,
    #[serde(default)]
    pub wu: f64,
}

/// functions of the wide-magnitude templates (index into prog::UNARY)
const WIDE_FUNS: [usize; 15] = [0, 1, 2, 6, 7, 8, 9, 15, 19, 20, 22, 10, 11, 18, 5];

/// Wide-magnitude composition template: n1 = c * t (four spellings), n2 = f(n1), n3 = n2 * t, with
/// |c t| = 10^e drawn from the function's wide range for the type (c01::wide_range): the chain and
/// product rules meet derivative coefficients many orders of magnitude away from 1.
fn wide_program(case: &Case, t: f64, is32: bool, d: usize) -> Program {
    let sel = case.wide as usize;
    let fi = WIDE_FUNS[sel % WIDE_FUNS.len()];
    let neg = (sel / 16) % 2 == 1;
    let l = crate::c01::wide_limit(is32, d);
    let (lo, hi, mirror) = crate::c01::wide_range(fi, l, neg);
    let e = lo + (hi - lo) * case.wu.clamp(0.0, 1.0);
    let mut target = 10f64.powf(e);
    if neg && mirror {
        target = -target;
    }
    let rnd = |v: f64| if is32 { v as f32 as f64 } else { v };
    let c = rnd(target / t);
    let mut ops = vec![Op::Input(0)];
    let scale = match (sel / 32) % 4 {
        0 => Op::BinS(Bin::Mul, false, 0, c),
        1 => Op::BinS(Bin::Mul, true, 0, c),
        2 => Op::BinS(Bin::Div, false, 0, rnd(1.0 / c)),
        _ => {
            ops.push(Op::Const(c));
            Op::Bin(Bin::Mul, Form::Owned, 0, 1)
        }
    };
    ops.push(scale);
    let n1 = ops.len() - 1;
    ops.push(Op::Un(UNARY[fi].name().to_string(), n1));
    let n2 = ops.len() - 1;
    if sel >= 128 {
        ops.push(Op::Bin(Bin::Mul, Form::Owned, n2, 0));
    }
    let last = ops.len() - 1;
    Program { n_inputs: 1, ops, outs: vec![last] }
}

pub fn raw_op() -> impl Strategy<Value = RawOp> {
    // opcode classes weighted: unary 0..24, sincos, powers, binary dual-dual, scalar, sum/product, constants
    let code = prop_oneof![
        24 => 0u8..24,
        2 => 24u8..26,
        6 => 26u8..31,
        2 => 31u8..34,
        24 => 34u8..46,
        8 => 46u8..50,
        3 => Just(50u8),
        3 => Just(51u8),
    ];
    (code, any::<u16>(), any::<u16>(), any::<u16>(), -1.0f64..1.0, any::<i8>()).prop_map(|(code, a, b, c, k, n)| RawOp { code, a, b, c, k, n })
}

pub fn input_real() -> impl Strategy<Value = f64> {
    prop_oneof![
        4 => -3.0f64..3.0,
        2 => 0.1f64..2.0,
        1 => (0.0f64..1.0).prop_map(|u| 10f64.powf(-2.0 + 3.0 * u)),
        1 => (-16i32..=16).prop_map(|k| k as f64 / 4.0),
        // exact special points (shortcuts such as `if x.is_zero()` only show up there)
        1 => prop_oneof![Just(0.0f64), Just(1.0f64), Just(-1.0f64), Just(2.0f64), Just(0.5f64)],
    ]
}

pub struct C03;

struct V<'a> {
    case: &'a Case,
    st: &'a mut Stats,
}

/// shared by C03 / C04 / C06: evaluate a resolved program on T and in the reference algebra and
/// compare every node. Returns (verdict, program text)
pub fn run_program<T>(dims: &[usize], prog: &Program, inputs: &[crate::types::Flat], st: &mut Stats, tag: &str) -> Verdict
where
    T: Ty + DualNum<<T as Ty>::F>,
{
    let lay = T::layout(dims);
    let alg = lay.alg();
        ndv_oracle::ring::set_unit(<T::F as Flt>::U);
    let is32 = <T::F as Flt>::IS32;
    let xs: Vec<T> = inputs.iter().map(|f| T::from_flat(dims, f)).collect();
    let js: Vec<_> = inputs.iter().map(|f| lay.embed(&alg, &f.vals, &f.pres)).collect();
    let rf = match eval_ref(prog, &js, is32, lay.levels) {
        Some(r) => r,
        None => return Verdict::Trivial("reference out of domain"),
    };
    if max_mag(&rf) > huge::<T::F>() {
        return Verdict::Trivial("magnitude out of range of the float type");
    }
    let lib = eval_lib::<T, T::F>(prog, &xs);
    let mut ill = false;
    let mut worst = 0.0f64;
    for (i, op) in prog.ops.iter().enumerate() {
        if i < prog.n_inputs {
            continue;
        }
        let lf = lib[i].to_flat(dims);
        let opname = op_name(op);
        let c = compare::<T::F>(&lay, &alg, &lf, &rf[i], K, false, &opname);
        if c.out_of_domain {
            return Verdict::Trivial("reference out of domain");
        }
        if let Some((sig, why)) = c.fail {
            return Verdict::Fail {
                sig: format!("{tag}/{sig}"),
                why: format!(
                    "program on {}: node n{i}: {}; program: {}; inputs: {:?}",
                    T::tname(dims),
                    why,
                    render(prog),
                    inputs.iter().map(|f| flat_json(&lay, f)).collect::<Vec<_>>()
                ),
            };
        }
        if c.ill {
            ill = true;
        }
        worst = worst.max(c.worst);
        st.ratio(&format!("op:{opname}"), c.worst);
    }
    st.ratio(if is32 { "program/f32" } else { "program" }, worst);
    // non-triviality
    let nonlinear = prog.ops.iter().filter(|o| is_nonlinear(o)).count();
    let two_operand = prog.ops.iter().any(|o| match o {
        Op::Bin(_, _, a, b) | Op::Powd(a, b) | Op::Atan2(a, b) => !is_const(prog, *a) && !is_const(prog, *b),
        Op::MulAdd(a, b, _) => !is_const(prog, *a) && !is_const(prog, *b),
        Op::Product(l) => l.iter().filter(|i| !is_const(prog, **i)).count() >= 2,
        _ => false,
    });
    let rich_input = inputs.iter().any(|f| {
        if lay.max_order() >= 2 {
            nonzero_parts(&lay, f, 2) >= 1 && nonzero_parts(&lay, f, 1) >= 2
        } else {
            nonzero_parts(&lay, f, 1) >= 1
        }
    });
    if ill {
        st.class("ill-conditioned");
    }
    st.class(&format!("nodes:{}", ((prog.ops.len() - prog.n_inputs) / 4) * 4));
    let nontrivial = nonlinear >= 2 && two_operand && rich_input && !ill;
    if nontrivial && st.wants_sample() {
        let last = prog.ops.len() - 1;
        st.sample(|| {
            json!({"type": T::tname(dims), "program": render(prog), "inputs": inputs.iter().map(|f| flat_json(&lay, f)).collect::<Vec<_>>(),
                "library_last_node": flat_json(&lay, &lib[last].to_flat(dims)), "reference_last_node": jet_json(&lay, &alg, &rf[last]), "worst_error_over_u_e": worst})
        });
    }
    Verdict::Pass { nontrivial }
}

pub fn op_name(op: &Op) -> String {
    match op {
        Op::Input(_) => "input".into(),
        Op::Const(_) | Op::ConstI(_) => "const".into(),
        Op::Un(f, _) => f.clone(),
        Op::SinCos(..) => "sin_cos".into(),
        Op::Powi(..) => "powi".into(),
        Op::Powf(..) => "powf".into(),
        Op::Powd(..) => "powd".into(),
        Op::Log(..) => "log".into(),
        Op::Atan2(..) => "atan2".into(),
        Op::MulAdd(..) => "mul_add".into(),
        Op::Neg(_) => "neg".into(),
        Op::Inv(_) => "inv".into(),
        Op::Bin(b, f, ..) => format!("{b:?}{f:?}").to_lowercase(),
        Op::BinS(b, a, ..) => format!("{b:?}scalar{}", if *a { "assign" } else { "" }).to_lowercase(),
        Op::Sum(_) => "sum".into(),
        Op::Product(_) => "product".into(),
        Op::RBinS(b, ..) => format!("r{b:?}scalar").to_lowercase(),
    }
}
fn is_nonlinear(op: &Op) -> bool {
    match op {
        Op::Un(f, _) => !matches!(f.as_str(), "abs" | "signum"),
        Op::SinCos(..) | Op::Powi(..) | Op::Powf(..) | Op::Powd(..) | Op::Log(..) | Op::Atan2(..) | Op::MulAdd(..) | Op::Inv(_) | Op::Product(_) => true,
        Op::Bin(b, ..) => matches!(b, Bin::Mul | Bin::Div),
        _ => false,
    }
}
fn is_const(p: &Program, i: usize) -> bool {
    matches!(p.ops[i], Op::Const(_) | Op::ConstI(_))
}

impl<'a> TyVisitor for V<'a> {
    type Out = Verdict;
    fn visit<T>(self, dims: &[usize]) -> Verdict
    where
        T: Ty + DualNum<<T as Ty>::F>,
    {
        let case = self.case;
        let lay = T::layout(dims);
        let xr: Vec<f64> = case.x.iter().map(|x| round_to::<T::F>(*x)).collect();
        let is32 = <T::F as Flt>::IS32;
        let (prog, repaired, xr) = if case.wide != 0 {
            let t = if xr[0].abs() < 0.1 { 1.5 } else { xr[0] };
            let d = lay.alg().depth();
            let d = if T::levels() > 1 { 2 * d + 1 } else { d };
            (wide_program(case, t, is32, d), 0, vec![t])
        } else {
            let (p, r) = resolve(&xr, &case.raw, 1);
            (p, r, xr)
        };
        struct Reset;
        impl Drop for Reset {
            fn drop(&mut self) {
                FLOOR_OVERRIDE.with(|c| c.set(None));
            }
        }
        let _reset = Reset;
        if case.wide != 0 {
            FLOOR_OVERRIDE.with(|c| c.set(Some(crate::c01::WIDE_FLOOR)));
            self.st.class("wide-magnitude composition template");
        }
        let inputs: Vec<_> = xr
            .iter()
            .enumerate()
            .map(|(i, x)| make_flat::<T::F>(&lay, *x, &case.parts[i % case.parts.len()], &case.pres[i % case.pres.len()], &case.zero))
            .collect();
        self.st.class(&format!("type:{}", TYPES[case.ty].name));
        self.st.count("domain_repairs", repaired as u64);
        self.st.count("nodes_compared", (prog.ops.len() - prog.n_inputs) as u64);
        run_program::<T>(dims, &prog, &inputs, self.st, "C03")
    }
}

pub fn case_strategy(max_nodes: usize) -> BoxedStrategy<Case> {
    (
        (0..TYPES.len(), dims_strategy()),
        proptest::collection::vec(input_real(), 1..=3),
        proptest::collection::vec(raw_op(), 1..=max_nodes),
        proptest::collection::vec(parts_pool(), 3),
        proptest::collection::vec(proptest::collection::vec(proptest::bool::weighted(0.75), 8), 3),
        proptest::collection::vec(proptest::bool::weighted(0.10), 8),
        (prop_oneof![9 => Just(0u8), 1 => 1u8..=255], 0.0f64..1.0),
    )
        .prop_map(|((ty, dims), x, raw, parts, pres, zero, (wide, wu))| Case { ty, dims, x, raw, parts, pres, zero, wide, wu })
        .boxed()
}

pub fn malformed(case: &Case) -> bool {
    case.ty >= TYPES.len()
        || case.x.is_empty()
        || case.x.len() > 3
        || case.raw.is_empty()
        || case.parts.is_empty()
        || case.parts.iter().any(|p| p.is_empty())
        || case.pres.is_empty()
        || case.pres.iter().any(|p| p.is_empty())
        || case.zero.is_empty()
        || case.x.iter().any(|x| !x.is_finite() || x.abs() > 1e3)
        || case.raw.iter().any(|r| !r.k.is_finite() || r.k.abs() > 1.0)
        || !case.wu.is_finite()
}

impl Property for C03 {
    type Case = Case;
    const ID: &'static str = "C03";
    fn strategy(tier: Tier) -> BoxedStrategy<Case> {
        case_strategy(if tier == Tier::Quick { 12 } else { 32 })
    }
    fn check(case: &Case, st: &mut Stats) -> Verdict {
        if malformed(case) {
            return Verdict::Trivial("malformed case");
        }
        let dims = [case.dims.0 as usize % 7, case.dims.1 as usize % 7];
        dispatch(case.ty, &dims, V { case, st })
    }
    fn cases(tier: Tier) -> u64 {
        match tier {
            Tier::Quick => 150_000,
            Tier::Thorough => 8_000_000,
        }
    }
    fn rule() -> String {
        "generated: SSA expression DAGs of 1..12 (thorough: 32) nodes over 1..3 inputs from 52 opcodes (24 unary functions, sin_cos, powi/powf/powd/log/atan2/mul_add, + - * / in owned, borrowed-rhs and compound-assignment form, scalar ops, Sum/Product, From<F>/FromPrimitive constants) with sharing; a deterministic resolver repairs domain violations (margins, |value| <= 1e6) so every generated program is valid; input parts arbitrary (not unit seeds), optional parts absent 25%. One case in ten is instead a wide-magnitude composition template f(c*t)[*t] with |c t| = 10^e over the function's whole representable range for the type (as in C01). Oracle: the same program evaluated by an independent interpreter in the reference algebra with running first-order rounding bound e; EVERY node (not only the output) is compared part by part with 32*u*e. Non-trivial: >= 2 non-linear nodes, a node with two non-constant operands, an input with independent higher-order parts, not ill-conditioned; distinct fingerprints.".into()
    }
    fn assumptions() -> Vec<String> {
        vec![
            "node values bounded by 1e6 and kept a fixed margin from singularities (DESIGN 3.6)".into(),
            "the first-order rounding bound e of the reference evaluation bounds the error of the library's evaluation order within the factor 32".into(),
        ]
    }
}
