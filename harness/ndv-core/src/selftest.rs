//! `ndv selftest`: validates the reference functions of ndv-oracle against the committed table
//! of 40-digit mpmath values (tables/reference.json).

use ndv_oracle::taylor::{taylor, Fun};
use ndv_oracle::R;

pub fn run() -> i32 {
    let path = "/verif/harness/ndv-oracle/tables/reference.json";
    let s = match std::fs::read_to_string(path) {
        Ok(s) => s,
        Err(e) => {
            eprintln!("selftest: cannot read {path}: {e}");
            return 2;
        }
    };
    let rows: Vec<serde_json::Value> = serde_json::from_str(&s).expect("table json");
    let mut worst = 0.0f64;
    let mut worst_at = String::new();
    let mut bad = 0;
    let mut n = 0;
    for r in &rows {
        let name = r["f"].as_str().unwrap();
        let x = r["x"].as_f64().unwrap();
        let f = Fun::from_name(name).expect("function name");
        let t = match taylor(f, R::exact(x), 4) {
            Some(t) => t,
            None => {
                eprintln!("selftest: {name}({x}) is outside the reference domain");
                bad += 1;
                continue;
            }
        };
        let mut fact = 1.0;
        for k in 0..5 {
            if k > 0 {
                fact *= k as f64;
            }
            let want: f64 = r["d"][k].as_str().unwrap().parse().unwrap();
            let got = t[k].v * fact;
            let e = t[k].e * fact;
            let diff = (got - want).abs();
            let tol = 4.0 * 1.1102230246251565e-16 * e + 1e-300;
            let ratio = if e > 0.0 { diff / (1.1102230246251565e-16 * e) } else if diff == 0.0 { 0.0 } else { f64::INFINITY };
            n += 1;
            if ratio > worst {
                worst = ratio;
                worst_at = format!("{name}^({k})({x}) got {got:e} want {want:e} e {e:e}");
            }
            if diff > tol {
                bad += 1;
                eprintln!("selftest: {name}^({k})({x}): got {got:e}, mpmath {want:e}, diff {diff:e} > {tol:e}");
            }
            // the bound must also be meaningful: not more than 1e6 times the value scale
            let scale: f64 = want.abs().max(1e-30);
            if e > 1e8 * scale && scale > 1e-20 && !name.contains("bessel") && !name.contains("tanh") {
                eprintln!("selftest: note: loose bound for {name}^({k})({x}): e = {e:e}, value {want:e}");
            }
        }
    }
    println!("selftest: {n} derivative values compared with mpmath, worst error/(u*e) = {worst:.3} at {worst_at}; failures: {bad}");
    if bad == 0 {
        0
    } else {
        2
    }
}
