//! ndv - property-based checks of num-dual (see /verif/DESIGN.md)
//!
//!   ndv <Cxx> [quick|thorough] [--seed N] [--replay FILE] [--cases N] [--shards N] [--direct N] [--no-evidence]
//!   ndv selftest

use ndv_core::engine::run;
use ndv_core::*;

#[global_allocator]
static GLOBAL: Counting = Counting;

fn main() {
    ALLOC_TRACKING.store(true, std::sync::atomic::Ordering::Relaxed);
    let argv: Vec<String> = std::env::args().collect();
    if argv.len() < 2 {
        eprintln!("usage: ndv <Cxx> [quick|thorough] [--seed N] [--replay FILE] [--cases N] [--shards N]");
        std::process::exit(2);
    }
    let prop = argv[1].clone();
    if prop == "selftest" {
        std::process::exit(selftest::run());
    }
    let args = parse_args(&argv[2..]);
    let code = match prop.as_str() {
        "C01" => run::<c01::C01>(&args),
        "C02" => run::<c02::C02>(&args),
        "C03" => run::<c03::C03>(&args),
        "C04" => run::<c04::C04>(&args),
        "C05" => run::<c05::C05>(&args),
        "C06" => run::<c06::C06>(&args),
        "C07" => run::<c07::C07>(&args),
        "C08" => run::<c08::C08>(&args),
        "C09" => run::<c09::C09>(&args),
        "C10" => run::<c10::C10>(&args),
        "C11" => run::<c11::C11>(&args),
        "C12" => run::<c12::C12>(&args),
        "C13" => run::<c13::C13>(&args),
        "C14" => run::<bessel::C14>(&args),
        "C16" => run::<c16::C16>(&args),
        "C18" => run::<c18::C18>(&args),
        "C15" => run::<bessel::C15>(&args),
        other => {
            eprintln!("unknown property {other}");
            2
        }
    };
    std::process::exit(code);
}
