//! ndv - property-based checks of num-dual (see /verif/DESIGN.md)
//!
//!   ndv <Cxx> [quick|thorough] [--seed N] [--replay FILE] [--cases N] [--shards N] [--no-evidence]

mod c01;
mod c02;
mod c02x;
mod c03;
mod c04;
mod c05;
mod c06;
mod c07;
mod c08;
mod c09;
mod c10;
mod c11;
mod c12;
mod c13;
mod c16;
mod c18;
mod bessel;
mod common;
mod engine;
mod prog;
mod registry;
mod selftest;
mod types;

use engine::{run, Args, Tier};
use std::alloc::{GlobalAlloc, Layout, System};
use std::sync::atomic::AtomicBool;

/// the counting allocator is active (switched off only for experiments)
pub static ALLOC_TRACKING: AtomicBool = AtomicBool::new(true);

/// Counting global allocator: live allocations / bytes per thread (the leak oracle of C13).
struct Counting;
unsafe impl GlobalAlloc for Counting {
    unsafe fn alloc(&self, l: Layout) -> *mut u8 {
        let p = System.alloc(l);
        if !p.is_null() {
            let _ = c13::LIVE_ALLOCS.try_with(|c| c.set(c.get() + 1));
            let _ = c13::LIVE_BYTES.try_with(|c| c.set(c.get() + l.size() as i64));
        }
        p
    }
    unsafe fn dealloc(&self, p: *mut u8, l: Layout) {
        System.dealloc(p, l);
        let _ = c13::LIVE_ALLOCS.try_with(|c| c.set(c.get() - 1));
        let _ = c13::LIVE_BYTES.try_with(|c| c.set(c.get() - l.size() as i64));
    }
    unsafe fn realloc(&self, p: *mut u8, l: Layout, new_size: usize) -> *mut u8 {
        let q = System.realloc(p, l, new_size);
        if !q.is_null() {
            let _ = c13::LIVE_BYTES.try_with(|c| c.set(c.get() + new_size as i64 - l.size() as i64));
        }
        q
    }
}
#[global_allocator]
static GLOBAL: Counting = Counting;

fn main() {
    let argv: Vec<String> = std::env::args().collect();
    if argv.len() < 2 {
        eprintln!("usage: ndv <Cxx> [quick|thorough] [--seed N] [--replay FILE] [--cases N] [--shards N]");
        std::process::exit(2);
    }
    let prop = argv[1].clone();
    if prop == "selftest" {
        std::process::exit(selftest::run());
    }
    let mut tier = match std::env::var("VERIF_TIER").ok().as_deref() {
        Some("thorough") => Tier::Thorough,
        _ => Tier::Quick,
    };
    let mut seed: u64 = std::env::var("VERIF_SEED").ok().and_then(|s| s.trim().parse::<i64>().ok()).map(|v| v as u64).unwrap_or(20261002);
    let mut replay = None;
    let mut shards = std::thread::available_parallelism().map(|n| n.get()).unwrap_or(8).min(16);
    let mut cases_override = None;
    let mut evidence = true;
    let mut direct = 0u64;
    let mut i = 2;
    while i < argv.len() {
        match argv[i].as_str() {
            "quick" => tier = Tier::Quick,
            "thorough" => tier = Tier::Thorough,
            "--seed" => {
                i += 1;
                seed = argv[i].parse::<i64>().expect("seed") as u64;
            }
            "--replay" => {
                i += 1;
                replay = Some(std::path::PathBuf::from(&argv[i]));
            }
            "--cases" => {
                i += 1;
                cases_override = Some(argv[i].parse().expect("cases"));
            }
            "--shards" => {
                i += 1;
                shards = argv[i].parse().expect("shards");
            }
            "--no-evidence" => evidence = false,
            "--direct" => {
                i += 1;
                direct = argv[i].parse().expect("direct");
            }
            other => {
                eprintln!("unknown argument {other}");
                std::process::exit(2);
            }
        }
        i += 1;
    }
    let args = Args { tier, seed, replay, shards, cases_override, evidence, direct };
    let code = match prop.as_str() {
        "C01" => run::<c01::C01>(&args),
        "C02" => run::<c02::C02>(&args),
        "C03" => run::<c03::C03>(&args),
        "C04" => run::<c04::C04>(&args),
        "C05" => run::<c05::C05>(&args),
        "C06" => run::<c06::C06>(&args),
        "C07" => run::<c07::C07>(&args),
        "C08" => run::<c08::C08>(&args),
        "C09" => run::<c09::C09>(&args),
        "C10" => run::<c10::C10>(&args),
        "C11" => run::<c11::C11>(&args),
        "C12" => run::<c12::C12>(&args),
        "C13" => run::<c13::C13>(&args),
        "C14" => run::<bessel::C14>(&args),
        "C16" => run::<c16::C16>(&args),
        "C18" => run::<c18::C18>(&args),
        "C15" => run::<bessel::C15>(&args),
        other => {
            eprintln!("unknown property {other}");
            2
        }
    };
    std::process::exit(code);
}
