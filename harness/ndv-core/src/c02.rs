//! C02 - dual arithmetic is the exact truncated Taylor algebra.

use crate::common::*;
use crate::engine::*;
use crate::registry::{dispatch, TyVisitor, TYPES};
use crate::types::{Flat, Flt, Layout, Ty};
use ndv_oracle::Jet;
use num_dual::DualNum;
use proptest::prelude::*;
use serde::{Deserialize, Serialize};
use serde_json::json;

#[derive(Clone, Copy, Debug, PartialEq, Eq, Serialize, Deserialize)]
pub enum Op2 {
    Add,
    Sub,
    Neg,
    Mul,
    Div,
    Powi(i32),
    Recip,
}

#[derive(Clone, Debug, Serialize, Deserialize)]
pub struct Case {
    pub ty: usize,
    pub dims: (u8, u8),
    pub op: Op2,
    /// true: operands from the dyadic grid (exact regime); false: arbitrary operands (rounding regime)
    pub grid: bool,
    /// grid material per part: (k in -8..=8, s in 0..=3); for the rounding regime the values themselves
    pub a: Vec<f64>,
    pub b: Vec<f64>,
    /// real parts (grid: small dyadics; power-of-two exponent for divisors)
    pub ra: f64,
    pub rb: f64,
    pub pres_a: Vec<bool>,
    pub pres_b: Vec<bool>,
    pub zero: Vec<bool>,
    /// use the compound-assignment / borrowed forms of the operator instead of the owned form
    #[serde(default)]
    pub form: u8,
}

fn grid_value() -> impl Strategy<Value = f64> {
    ((-8i32..=8), (0u32..=3)).prop_map(|(k, s)| k as f64 / (1u32 << s) as f64)
}
fn pow2_value() -> impl Strategy<Value = f64> {
    ((-3i32..=3), any::<bool>()).prop_map(|(k, s)| if s { -(2f64.powi(k)) } else { 2f64.powi(k) })
}

pub struct C02;

fn apply<T: DualNum<F> + Clone, F: Flt>(op: Op2, a: &T, b: &T, form: u8) -> T {
    // forms 1 and 2: `a op= b` and `a op &b` (the property is about the operation, whatever its spelling)
    if form % 3 == 1 {
        let mut x = a.clone();
        match op {
            Op2::Add => x += b.clone(),
            Op2::Sub => x -= b.clone(),
            Op2::Mul => x *= b.clone(),
            Op2::Div => x /= b.clone(),
            _ => return apply::<T, F>(op, a, b, 0),
        }
        return x;
    }
    if form % 3 == 2 {
        return match op {
            Op2::Add => a.clone() + b,
            Op2::Sub => a.clone() - b,
            Op2::Mul => a.clone() * b,
            Op2::Div => a.clone() / b,
            _ => apply::<T, F>(op, a, b, 0),
        };
    }
    match op {
        Op2::Add => a.clone() + b.clone(),
        Op2::Sub => a.clone() - b.clone(),
        Op2::Neg => -a.clone(),
        Op2::Mul => a.clone() * b.clone(),
        Op2::Div => a.clone() / b.clone(),
        Op2::Powi(n) => a.powi(n),
        Op2::Recip => a.recip(),
    }
}
fn apply_ref(op: Op2, a: &Jet, b: &Jet) -> Option<Jet> {
    Some(match op {
        Op2::Add => a.add(b),
        Op2::Sub => a.sub(b),
        Op2::Neg => a.neg(),
        Op2::Mul => a.mul(b),
        Op2::Div => a.div(b)?,
        Op2::Powi(n) => {
            // integer powers by repeated multiplication in the reference algebra (exact on the grid)
            let k = n.unsigned_abs();
            let mut acc = Jet::constant(&a.alg, ndv_oracle::R::ONE);
            if k <= 16 {
                for _ in 0..k {
                    acc = acc.mul(a);
                }
            } else {
                // square and multiply (large exponents are only generated for bases with real part +-1)
                let mut base = a.clone();
                let mut e = k;
                while e > 0 {
                    if e & 1 == 1 {
                        acc = acc.mul(&base);
                    }
                    e >>= 1;
                    if e > 0 {
                        base = base.mul(&base);
                    }
                }
            }
            if n < 0 {
                acc.recip()?
            } else {
                acc
            }
        }
        Op2::Recip => a.recip()?,
    })
}

/// are the derivative parts of a and b linearly independent (not multiples of each other)?
fn independent(lay: &Layout, a: &Flat, b: &Flat) -> bool {
    let va: Vec<f64> = (1..lay.slots.len()).map(|i| if lay.slot_present(i, &a.pres) { a.vals[i] } else { 0.0 }).collect();
    let vb: Vec<f64> = (1..lay.slots.len()).map(|i| if lay.slot_present(i, &b.pres) { b.vals[i] } else { 0.0 }).collect();
    let na = va.iter().filter(|x| **x != 0.0).count();
    let nb = vb.iter().filter(|x| **x != 0.0).count();
    if na < 2 || nb < 2 {
        return false;
    }
    // cross products
    for i in 0..va.len() {
        for j in i + 1..va.len() {
            if va[i] * vb[j] - va[j] * vb[i] != 0.0 {
                return true;
            }
        }
    }
    false
}

pub fn check_op<T>(dims: &[usize], op: Op2, fa: &Flat, fb: &Flat, grid: bool, st: &mut Stats, lay: &Layout) -> Verdict
where
    T: Ty + DualNum<<T as Ty>::F>,
{
    check_op_form::<T>(dims, op, fa, fb, grid, st, lay, 0)
}

pub fn check_op_form<T>(dims: &[usize], op: Op2, fa: &Flat, fb: &Flat, grid: bool, st: &mut Stats, lay: &Layout, form: u8) -> Verdict
where
    T: Ty + DualNum<<T as Ty>::F>,
{
    let alg = lay.alg();
        ndv_oracle::ring::set_unit(<T::F as Flt>::U);
    let a = T::from_flat(dims, fa);
    let b = T::from_flat(dims, fb);
    let aj = lay.embed(&alg, &fa.vals, &fa.pres);
    let bj = lay.embed(&alg, &fb.vals, &fb.pres);
    let lib = apply::<T, T::F>(op, &a, &b, form);
    let rf = match apply_ref(op, &aj, &bj) {
        Some(r) if r.all_finite() => r,
        _ => return Verdict::Trivial("reference out of domain"),
    };
    if max_mag(std::slice::from_ref(&rf)) > huge::<T::F>() {
        return Verdict::Trivial("magnitude out of range of the float type");
    }
    let lf = lib.to_flat(dims);
    let opname = match op {
        Op2::Add => "add",
        Op2::Sub => "sub",
        Op2::Neg => "neg",
        Op2::Mul => "mul",
        Op2::Div => "div",
        Op2::Powi(_) => "powi",
        Op2::Recip => "recip",
    };
    let kfac = K;
    // f32: only sums and products of two 4-bit factors are guaranteed to fit into 24 bits
    // large exponents: the binomial coefficients times part products pass 2^53 in intermediates, so only
    // the rounding bound is demanded there
    let demand = grid && (!<T::F as Flt>::IS32 || matches!(op, Op2::Add | Op2::Sub | Op2::Neg | Op2::Mul)) && !matches!(op, Op2::Powi(n) if !(-6..=8).contains(&n));
    let c = compare::<T::F>(lay, &alg, &lf, &rf, kfac, demand, opname);
    if c.out_of_domain {
        return Verdict::Trivial("reference out of domain");
    }
    if let Some((sig, why)) = c.fail {
        return Verdict::Fail {
            sig: format!("C02/{sig}"),
            why: format!("{:?} on {}: {}; a = {}, b = {}", op, T::tname(dims), why, flat_json(lay, fa), flat_json(lay, fb)),
        };
    }
    if grid {
        if c.exact_parts == c.checked_parts {
            st.class("grid: all parts verified bit-exact");
        } else {
            st.class("grid: some reference part inexact (compared with tolerance)");
        }
        st.count("bit_exact_part_comparisons", c.exact_parts as u64);
    } else {
        st.ratio(opname, c.worst);
    }
    st.class(&format!("op:{opname}"));
    let nontrivial = matches!(op, Op2::Mul | Op2::Div) && independent(lay, fa, fb) && !c.ill;
    if nontrivial && st.wants_sample() {
        st.sample(|| json!({"type": T::tname(dims), "op": format!("{op:?}"), "grid": grid, "a": flat_json(lay, fa), "b": flat_json(lay, fb), "library": flat_json(lay, &lf)}));
    }
    Verdict::Pass { nontrivial }
}

struct V<'a> {
    case: &'a Case,
    st: &'a mut Stats,
}
impl<'a> TyVisitor for V<'a> {
    type Out = Verdict;
    fn visit<T>(self, dims: &[usize]) -> Verdict
    where
        T: Ty + DualNum<<T as Ty>::F>,
    {
        let case = self.case;
        let lay = T::layout(dims);
        let needs_pow2_b = matches!(case.op, Op2::Div);
        let needs_pow2_a = matches!(case.op, Op2::Recip) || matches!(case.op, Op2::Powi(n) if n < 0);
        let (ra, rb) = if case.grid {
            (
                if needs_pow2_a { pow2_of(case.ra) } else { case.ra },
                if needs_pow2_b { pow2_of(case.rb) } else { case.rb },
            )
        } else {
            let fix = |x: f64| if x.abs() < 1e-2 { if x < 0.0 { x - 0.5 } else { x + 0.5 } } else { x };
            (if needs_pow2_a { fix(case.ra) } else { case.ra }, if needs_pow2_b { fix(case.rb) } else { case.rb })
        };
        // the exact regime is only defined on the dyadic grid: snap whatever came in (identity for
        // generated cases, makes the check total for fuzzed ones)
        let snap = |v: &Vec<f64>| -> Vec<f64> { v.iter().map(|x| if case.grid { grid_snap(*x) } else { *x }).collect() };
        let (mut ra, rb) = if case.grid { (if needs_pow2_a { ra } else { grid_snap(ra) }, if needs_pow2_b { rb } else { grid_snap(rb) }) } else { (ra, rb) };
        // large exponents: the base has real part +-1 and parts of magnitude <= 2, so that every part of
        // the power (binomial coefficients up to n(n-1)(n-2) times products of parts) stays representable
        let large = matches!(case.op, Op2::Powi(n) if !(-6..=8).contains(&n));
        let snap = |v: &Vec<f64>| -> Vec<f64> { snap(v).iter().map(|x| if large { x.clamp(-2.0, 2.0) } else { *x }).collect() };
        if large {
            ra = if case.ra < 0.0 { -1.0 } else { 1.0 };
            self.st.class("powi with a large exponent (base real part +-1)");
        }
        let fa = make_flat::<T::F>(&lay, ra, &snap(&case.a), &case.pres_a, &case.zero);
        let fb = make_flat::<T::F>(&lay, rb, &snap(&case.b), &case.pres_b, &[false]);
        self.st.class(&format!("type:{}", TYPES[case.ty].name));
        self.st.class(if case.grid { "regime:exact-grid" } else { "regime:rounding" });
        check_op_form::<T>(dims, case.op, &fa, &fb, case.grid, self.st, &lay, case.form)
    }
}

/// nearest point of the dyadic grid k * 2^-3, |value| <= 8
fn grid_snap(x: f64) -> f64 {
    if !x.is_finite() {
        return 1.0;
    }
    ((x.clamp(-8.0, 8.0) * 8.0).round()) / 8.0
}

/// map an arbitrary grid value to +-2^k, k in -3..=3 (used when the value must be a power of two)
fn pow2_of(x: f64) -> f64 {
    let k = ((x.abs() * 8.0) as i32 % 7) - 3;
    let v = 2f64.powi(k);
    if x < 0.0 {
        -v
    } else {
        v
    }
}

impl Property for C02 {
    type Case = Case;
    const ID: &'static str = "C02";
    fn strategy(_tier: Tier) -> BoxedStrategy<Case> {
        let op = prop_oneof![
            2 => Just(Op2::Add),
            2 => Just(Op2::Sub),
            1 => Just(Op2::Neg),
            6 => Just(Op2::Mul),
            6 => Just(Op2::Div),
            3 => (-6i32..=8).prop_map(Op2::Powi),
            1 => (any::<bool>(), 0.0f64..1.0).prop_map(|(neg, u)| {
                // log-uniform in 9..=60000 (n(n-1)(n-2) passes 2^31 at 1292, n(n-1) at 46342)
                let n = (9.0 * (60000.0f64 / 9.0).powf(u)).round() as i32;
                Op2::Powi(if neg { -n } else { n })
            }),
            2 => Just(Op2::Recip),
        ];
        let grid_case = (
            (0..TYPES.len(), dims_strategy(), op.clone()),
            (proptest::collection::vec(grid_value(), POOL), proptest::collection::vec(grid_value(), POOL)),
            (grid_value(), prop_oneof![grid_value(), pow2_value()]),
            (presence(), proptest::collection::vec(proptest::bool::weighted(0.75), 8), any::<u8>()),
        )
            .prop_map(|((ty, dims, op), (a, b), (ra, rb), ((pres_a, zero), pres_b, form))| Case { ty, dims, op, grid: true, a, b, ra, rb, pres_a, pres_b, zero, form });
        let free_case = (
            (0..TYPES.len(), dims_strategy(), op),
            (parts_pool(), parts_pool()),
            (-4.0f64..4.0, -4.0f64..4.0),
            (presence(), proptest::collection::vec(proptest::bool::weighted(0.75), 8), any::<u8>()),
        )
            .prop_map(|((ty, dims, op), (a, b), (ra, rb), ((pres_a, zero), pres_b, form))| Case { ty, dims, op, grid: false, a, b, ra, rb, pres_a, pres_b, zero, form });
        prop_oneof![3 => grid_case, 1 => free_case].boxed()
    }
    fn check(case: &Case, st: &mut Stats) -> Verdict {
        if case.ty >= TYPES.len() || case.a.is_empty() || case.b.is_empty() || case.pres_a.is_empty() || case.pres_b.is_empty() || case.zero.is_empty() {
            return Verdict::Trivial("malformed case");
        }
        if let Op2::Powi(n) = case.op {
            if !(-60000..=60000).contains(&n) {
                return Verdict::Trivial("malformed case");
            }
        }
        if !case.ra.is_finite() || !case.rb.is_finite() || case.a.iter().chain(&case.b).any(|x| !x.is_finite() || x.abs() > 1e3) || case.ra.abs() > 1e3 || case.rb.abs() > 1e3 {
            return Verdict::Trivial("malformed case");
        }
        let dims = [case.dims.0 as usize % 7, case.dims.1 as usize % 7];
        dispatch(case.ty, &dims, V { case, st })
    }
    fn cases(tier: Tier) -> u64 {
        match tier {
            Tier::Quick => 300_000,
            Tier::Thorough => 10_000_000,
        }
    }
    fn exhaustive(tier: Tier, st: &mut Stats) -> Vec<(Case, String, String)> {
        crate::c02x::exhaustive(tier, st)
    }
    fn rule() -> String {
        "generated: (type, op in {+,-,neg,*,/,powi(n in -6..8, and log-uniform 9 <= |n| <= 60000 on bases with real part +-1),recip} spelled as owned, compound-assignment or borrowed-rhs form, two operands, presence pattern of every optional part); 75% of the cases draw every part from the dyadic grid k*2^-s (|k|<=8, s<=3; divisor / negative-power base real parts +-2^k) where every algebraically correct evaluation is rounding-free: there the oracle (reference algebra whose every + and * is verified exact by TwoSum/FMA residuals) must be matched BIT FOR BIT; 25% arbitrary operands compared with 32*u*e. In addition tensor grids are enumerated exhaustively for the five scalar f64 types (deg+1 points per operand part, see counters). Non-trivial: op is * or /, both operands have >= 2 non-zero derivative parts that are not multiples of each other, not ill-conditioned; distinct case fingerprints.".into()
    }
    fn assumptions() -> Vec<String> {
        vec![
            "on the dyadic grid all intermediate values of any evaluation order fit in 53 bits (operands have <= 4 significant bits, <= 4 factors)".into(),
            "f64::powi is exact when every intermediate product is representable".into(),
        ]
    }
}
