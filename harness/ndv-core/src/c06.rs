//! C06 - the real part is transparent and alone decides comparisons and branches.

use crate::c03;
use crate::common::*;
use crate::engine::*;
use crate::prog::*;
use crate::registry::{dispatch, dispatch_field, TyVisitor, TyVisitorField, TYPES};
use crate::types::{Flat, Flt, Ty};
use ndv_oracle::taylor::Fun;
use num_dual::DualNum;
use num_traits::{One, Signed, Zero};
use proptest::prelude::*;
use serde::{Deserialize, Serialize};
use serde_json::json;

#[derive(Clone, Debug, Serialize, Deserialize)]
pub struct Case {
    pub ty: usize,
    pub dims: (u8, u8),
    /// 0: programs (metamorphic + differential against floats), 1: predicates / selection, 2: std equivalence of the plain-float instances
    pub kind: u8,
    pub prog: c03::Case,
    /// second, independent assignment of all derivative parts
    pub parts_b: Vec<Vec<f64>>,
    pub pres_b: Vec<Vec<bool>>,
    /// pair material for the predicates: (class, value material)
    pub pc: u8,
    pub pv: f64,
    pub pw: f64,
    pub fun: u8,
}

pub struct C06;

fn special(pc: u8, v: f64, w: f64, is32: bool) -> (f64, f64) {
    let r = |x: f64| if is32 { x as f32 as f64 } else { x };
    let up = |x: f64| {
        if is32 {
            let f = x as f32;
            f32::from_bits(if f >= 0.0 { f.to_bits() + 1 } else { f.to_bits() - 1 }) as f64
        } else {
            f64::from_bits(if x >= 0.0 { x.to_bits() + 1 } else { x.to_bits() - 1 })
        }
    };
    match pc % 17 {
        12 => (r(v), -0.0),
        13 => (r(v), 0.0),
        // close but unequal real parts: which of the absolute / relative / ulps tolerances accepts
        // them depends on the magnitude
        14 => (r(v), r(v * (1.0 + 4.0e-4))),
        15 => (r(v), r(v + 5.0e-10)),
        16 => (r(v * 1.0e-9), 0.0),
        0 => (r(v), r(v)),
        1 => (r(v), up(r(v))),
        2 => (up(r(v)), r(v)),
        3 => (0.0, -0.0),
        4 => (-0.0, 0.0),
        5 => (f64::INFINITY, r(v)),
        6 => (r(v), f64::NEG_INFINITY),
        7 => (f64::NAN, r(v)),
        8 => (r(v), f64::NAN),
        9 => (1.0, r(v)),
        10 => (0.0, r(v)),
        _ => (r(v), r(w)),
    }
}

/// one case in three of the predicate / comparison kinds: some derivative parts are inf / NaN
/// (decisions must still follow the real part)
fn poison(f: &mut Flat, pc: u8) {
    if (pc as usize / 17) % 3 == 2 {
        let nonfinite = [f64::INFINITY, f64::NAN, f64::NEG_INFINITY];
        for i in 1..f.vals.len() {
            if (i + pc as usize) % 2 == 0 {
                f.vals[i] = nonfinite[(i + pc as usize / 3) % 3];
            }
        }
    }
}

struct VProg<'a> {
    case: &'a Case,
    st: &'a mut Stats,
}

impl<'a> TyVisitor for VProg<'a> {
    type Out = Verdict;
    fn visit<T>(self, dims: &[usize]) -> Verdict
    where
        T: Ty + DualNum<<T as Ty>::F>,
    {
        let case = self.case;
        let st = self.st;
        let pc = &case.prog;
        let lay = T::layout(dims);
        let alg = lay.alg();
        let is32 = <T::F as Flt>::IS32;
        ndv_oracle::ring::set_unit(<T::F as Flt>::U);
        let xr: Vec<f64> = pc.x.iter().map(|x| round_to::<T::F>(*x)).collect();
        let (prog, _) = resolve(&xr, &pc.raw, 1);
        let mk = |parts: &Vec<Vec<f64>>, pres: &Vec<Vec<bool>>, zero: &[bool]| -> Vec<Flat> {
            xr.iter().enumerate().map(|(i, x)| make_flat::<T::F>(&lay, *x, &parts[i % parts.len()], &pres[i % pres.len()], zero)).collect()
        };
        let ina = mk(&pc.parts, &pc.pres, &pc.zero);
        // second assignment: independent parts; in a third of the cases everything absent / zero
        let all_absent = case.pc % 3 == 0;
        let inb = if all_absent { mk(&vec![vec![0.0]], &vec![vec![false]], &[true]) } else { mk(&case.parts_b, &case.pres_b, &[false]) };
        let xa: Vec<T> = ina.iter().map(|f| T::from_flat(dims, f)).collect();
        let xb: Vec<T> = inb.iter().map(|f| T::from_flat(dims, f)).collect();
        let la = eval_lib::<T, T::F>(&prog, &xa);
        let lb = eval_lib::<T, T::F>(&prog, &xb);
        // (1) metamorphic: bit-identical real parts
        for i in 0..la.len() {
            let (p, q) = (la[i].re().to64(), lb[i].re().to64());
            if p.to_bits() != q.to_bits() && !(p.is_nan() && q.is_nan()) {
                return Verdict::Fail {
                    sig: format!("C06/real-part-depends-on-parts/{}", c03::op_name(&prog.ops[i])),
                    why: format!(
                        "{}: node n{i} of `{}`: real part {:e} with parts A but {:e} with parts B (same real inputs {:?}); A = {:?}, B = {:?}",
                        T::tname(dims),
                        render(&prog),
                        p,
                        q,
                        xr,
                        ina.iter().map(|f| flat_json(&lay, f)).collect::<Vec<_>>(),
                        inb.iter().map(|f| flat_json(&lay, f)).collect::<Vec<_>>()
                    ),
                };
            }
        }
        // (2) differential against the plain float evaluation of the same program
        let xf: Vec<T::F> = xr.iter().map(|x| <T::F as Flt>::from64(*x)).collect();
        let lf = eval_lib::<T::F, T::F>(&prog, &xf);
        let js: Vec<_> = ina.iter().map(|f| lay.embed(&alg, &f.vals, &f.pres)).collect();
        let rf = match eval_ref(&prog, &js, is32, lay.levels) {
            Some(r) => r,
            None => return Verdict::Trivial("reference out of domain"),
        };
        let single = prog.ops.len() - prog.n_inputs == 1;
        let kf = if single { K / 4.0 } else { K };
        for i in prog.n_inputs..la.len() {
            let (p, q) = (la[i].re().to64(), lf[i].to64());
            let e = rf[i].c[0].e;
            let tol = 2.0 * kf * <T::F as Flt>::U * e + <T::F as Flt>::FLOOR;
            if !((p - q).abs() <= tol) && !(p.is_nan() && q.is_nan()) && p != q {
                return Verdict::Fail {
                    sig: format!("C06/real-part-vs-float/{}", c03::op_name(&prog.ops[i])),
                    why: format!("{}: node n{i} of `{}`: real part {:e} but the plain {} evaluation gives {:e} (tolerance {:e}); real inputs {:?}", T::tname(dims), render(&prog), p, <T::F as Flt>::NAME, q, tol, xr),
                };
            }
        }
        st.class(&format!("type:{}", TYPES[case.ty].name));
        st.class(if all_absent { "B: all parts absent/zero" } else { "B: independent parts" });
        let differ = ina.iter().zip(&inb).map(|(a, b)| (1..a.vals.len()).filter(|i| a.vals[*i] != b.vals[*i] || lay.slot_present(*i, &a.pres) != lay.slot_present(*i, &b.pres)).count()).sum::<usize>();
        let nontrivial = differ >= 2 && prog.ops.len() > prog.n_inputs;
        if nontrivial && st.wants_sample() {
            st.sample(|| json!({"kind": "program", "type": T::tname(dims), "program": render(&prog), "real_inputs": xr, "parts_A": ina.iter().map(|f| flat_json(&lay, f)).collect::<Vec<_>>(), "parts_B": inb.iter().map(|f| flat_json(&lay, f)).collect::<Vec<_>>(), "last_real_part": la[la.len()-1].re().to64()}));
        }
        Verdict::Pass { nontrivial }
    }
}

/// single operations on stratified real parts (incl. the large / tiny strata of C01): the real part
/// is independent of the derivative parts and equals the float function to a few ulp
struct VSingle<'a> {
    case: &'a Case,
    st: &'a mut Stats,
}
impl<'a> TyVisitor for VSingle<'a> {
    type Out = Verdict;
    fn visit<T>(self, dims: &[usize]) -> Verdict
    where
        T: Ty + DualNum<<T as Ty>::F>,
    {
        let case = self.case;
        let lay = T::layout(dims);
        let is32 = <T::F as Flt>::IS32;
        let fi = case.fun as usize % 22;
        let f = UNARY[fi];
        let u = case.pv.abs().fract();
        let x0 = round_to::<T::F>(crate::c01::real_part(fi, is32, case.pc, u));
        let pc = &case.prog;
        let fa = make_flat::<T::F>(&lay, x0, &pc.parts[0], &pc.pres[0], &pc.zero);
        let fb = make_flat::<T::F>(&lay, x0, &case.parts_b[0], &case.pres_b[0], &[false]);
        let ra = apply_un::<T, T::F>(f, &T::from_flat(dims, &fa)).re().to64();
        let rb = apply_un::<T, T::F>(f, &T::from_flat(dims, &fb)).re().to64();
        let rf = apply_un::<T::F, T::F>(f, &<T::F as Flt>::from64(x0)).to64();
        if ra.to_bits() != rb.to_bits() && !(ra.is_nan() && rb.is_nan()) {
            return Verdict::Fail {
                sig: format!("C06/real-part-depends-on-parts/{}", f.name()),
                why: format!("{}: {}({:e}) has real part {:e} with parts A but {:e} with parts B; A = {}, B = {}", T::tname(dims), f.name(), x0, ra, rb, flat_json(&lay, &fa), flat_json(&lay, &fb)),
            };
        }
        if !rf.is_finite() {
            return Verdict::Trivial("float function not finite");
        }
        // a few units in the last place (tan, tanh are quotients of two functions)
        let ulps = if matches!(f, Fun::Tan | Fun::Tanh) { 16.0 } else { 8.0 };
        let tol = ulps * <T::F as Flt>::U * rf.abs() + <T::F as Flt>::FLOOR;
        if !((ra - rf).abs() <= tol) {
            return Verdict::Fail {
                sig: format!("C06/real-part-vs-float/{}", f.name()),
                why: format!("{}: {}({:e}) has real part {:e} but the plain {} function gives {:e} (tolerance {:e})", T::tname(dims), f.name(), x0, ra, <T::F as Flt>::NAME, rf, tol),
            };
        }
        self.st.class(&format!("single:{}{}", f.name(), if is32 { "/f32" } else { "" }));
        Verdict::Pass { nontrivial: (1..fa.vals.len()).filter(|i| fa.vals[*i] != fb.vals[*i]).count() >= 1 }
    }
}

/// predicates that exist on every type
struct VPred<'a> {
    case: &'a Case,
    st: &'a mut Stats,
}
impl<'a> TyVisitor for VPred<'a> {
    type Out = Verdict;
    fn visit<T>(self, dims: &[usize]) -> Verdict
    where
        T: Ty + DualNum<<T as Ty>::F>,
    {
        let case = self.case;
        let lay = T::layout(dims);
        let is32 = <T::F as Flt>::IS32;
        let (ra, rb) = special(case.pc, case.pv, case.pw, is32);
        let pc = &case.prog;
        let fa = make_flat::<T::F>(&lay, ra, &pc.parts[0], &pc.pres[0], &pc.zero);
        let mut fb = make_flat::<T::F>(&lay, rb, &case.parts_b[0], &case.pres_b[0], &[false]);
        // (only the second operand: abs / abs_sub below compare the parts of the first numerically)
        poison(&mut fb, case.pc);
        // keep the sign of zero / NaN / inf (round_to keeps them)
        let a = T::from_flat(dims, &fa);
        let b = T::from_flat(dims, &fb);
        let (xa, xb) = (<T::F as Flt>::from64(ra), <T::F as Flt>::from64(rb));
        let fail = |what: &str, got: String, want: String| Verdict::Fail {
            sig: format!("C06/predicate/{what}"),
            why: format!("{}: {what} gives {got} but the real parts ({:e}, {:e}) give {want}; a = {}, b = {}", T::tname(dims), ra, rb, flat_json(&lay, &fa), flat_json(&lay, &fb)),
        };
        macro_rules! same_bool {
            ($what:literal, $got:expr, $want:expr) => {
                let (g, w) = (($got), ($want));
                if g != w {
                    return fail($what, format!("{}", g), format!("{}", w));
                }
            };
        }
        same_bool!("is_zero", a.is_zero(), xa.is_zero());
        same_bool!("is_one", a.is_one(), xa.is_one());
        same_bool!("is_positive", a.is_positive(), Signed::is_positive(&xa));
        same_bool!("is_negative", a.is_negative(), Signed::is_negative(&xa));
        // abs: the operand or its negation, selected like the float abs
        if !ra.is_nan() {
            let ab = a.abs().to_flat(dims);
            let want = if Signed::is_positive(&xa) { fa.clone() } else { (-a.clone()).to_flat(dims) };
            if ab.vals[0].to_bits() != Signed::abs(&xa).to64().to_bits() && ra != 0.0 {
                return fail("abs", format!("{:e}", ab.vals[0]), format!("{:e}", Signed::abs(&xa).to64()));
            }
            for i in 1..ab.vals.len() {
                let w = if lay.slot_present(i, &want.pres) { want.vals[i] } else { 0.0 };
                if ab.vals[i] != w {
                    return fail("abs (derivative parts)", format!("{:e} in {}", ab.vals[i], lay.slots[i].name), format!("{:e}", w));
                }
            }
            // signum away from exact zeros
            if ra != 0.0 {
                let sg = a.signum().to_flat(dims);
                if sg.vals[0] != Signed::signum(&xa).to64() || sg.vals[1..].iter().any(|v| *v != 0.0) {
                    return fail("signum", format!("{:?}", sg.vals), format!("{:e} with zero parts", Signed::signum(&xa).to64()));
                }
            }
            // abs_sub: positive difference decided by the real parts
            if !rb.is_nan() && ra.is_finite() && rb.is_finite() {
                let d = a.abs_sub(&b).to_flat(dims);
                let want = if xa > xb { (a.clone() - b.clone()).to_flat(dims) } else { T::zero().to_flat(dims) };
                for i in 0..d.vals.len() {
                    if d.vals[i] != want.vals[i] && !(d.vals[i].is_nan() && want.vals[i].is_nan()) {
                        return fail("abs_sub", format!("{:e} in {}", d.vals[i], lay.slots[i].name), format!("{:e}", want.vals[i]));
                    }
                }
            }
        }
        self.st.class(&format!("pair-class:{}", case.pc % 17));
        let nontrivial = (1..fa.vals.len()).any(|i| fa.vals[i] != fb.vals[i]);
        Verdict::Pass { nontrivial }
    }
}

/// comparison operators and RealField selection on the four field-compatible types
struct VField<'a> {
    case: &'a Case,
    st: &'a mut Stats,
}
impl<'a> TyVisitorField for VField<'a> {
    type Out = Verdict;
    fn visit<T>(self, dims: &[usize]) -> Verdict
    where
        T: Ty + DualNum<<T as Ty>::F> + PartialOrd + nalgebra::RealField + nalgebra::SimdValue<Element = T, SimdBool = bool>,
        <T as Ty>::F: nalgebra::RealField,
    {
        let case = self.case;
        let lay = T::layout(dims);
        let is32 = <T::F as Flt>::IS32;
        let (ra, rb) = special(case.pc, case.pv, case.pw, is32);
        let pc = &case.prog;
        let mut fa = make_flat::<T::F>(&lay, ra, &pc.parts[0], &pc.pres[0], &pc.zero);
        let mut fb = make_flat::<T::F>(&lay, rb, &case.parts_b[0], &case.pres_b[0], &[false]);
        poison(&mut fa, case.pc);
        poison(&mut fb, case.pc.wrapping_add(1));
        let fc = make_flat::<T::F>(&lay, round_to::<T::F>(case.pw), &pc.parts[pc.parts.len() - 1], &pc.pres[0], &[false]);
        let a = T::from_flat(dims, &fa);
        let b = T::from_flat(dims, &fb);
        let c = T::from_flat(dims, &fc);
        let (xa, xb, xc) = (<T::F as Flt>::from64(ra), <T::F as Flt>::from64(rb), <T::F as Flt>::from64(fc.vals[0]));
        let fail = |what: &str, got: String, want: String| Verdict::Fail {
            sig: format!("C06/comparison/{what}"),
            why: format!("{}: {what} gives {got} but the real parts ({:e}, {:e}) give {want}; a = {}, b = {}", T::tname(dims), ra, rb, flat_json(&lay, &fa), flat_json(&lay, &fb)),
        };
        macro_rules! same {
            ($what:literal, $got:expr, $want:expr) => {
                let (g, w) = (($got), ($want));
                if g != w {
                    return fail($what, format!("{:?}", g), format!("{:?}", w));
                }
            };
        }
        same!("==", a == b, xa == xb);
        same!("!=", a != b, xa != xb);
        same!("<", a < b, xa < xb);
        same!("<=", a <= b, xa <= xb);
        same!(">", a > b, xa > xb);
        same!(">=", a >= b, xa >= xb);
        same!("partial_cmp", a.partial_cmp(&b), xa.partial_cmp(&xb));
        // the approx traits decide by the real part as well: default tolerances of the float and
        // generated ones (absolute and relative tolerance different from each other)
        if ra.is_finite() && rb.is_finite() {
            let de = <T::F as approx::AbsDiffEq>::default_epsilon();
            let tol = |x: f64| <T::F as Flt>::from64(x);
            let combos: [(T::F, T::F, u32); 5] = [(tol(1e-3), tol(1e-9), 4), (tol(1e-9), tol(1e-3), 64), (tol(1e-7), de, 1), (de, tol(1e-2), 1000), (tol(0.5), tol(1e-6), 4)];
            for (eps, rel, ulps) in combos {
                let (e_t, r_t) = (T::from(eps), T::from(rel));
                same!("abs_diff_eq (generated tolerance)", approx::AbsDiffEq::abs_diff_eq(&a, &b, e_t.clone()), approx::AbsDiffEq::abs_diff_eq(&xa, &xb, eps));
                same!("relative_eq (generated tolerances)", approx::RelativeEq::relative_eq(&a, &b, e_t.clone(), r_t.clone()), approx::RelativeEq::relative_eq(&xa, &xb, eps, rel));
                same!("ulps_eq (generated tolerances)", approx::UlpsEq::ulps_eq(&a, &b, e_t.clone(), ulps), approx::UlpsEq::ulps_eq(&xa, &xb, eps, ulps));
            }
        }
        if ra.is_finite() && rb.is_finite() {
            same!("abs_diff_eq", approx::AbsDiffEq::abs_diff_eq(&a, &b, <T as approx::AbsDiffEq>::default_epsilon()), approx::AbsDiffEq::abs_diff_eq(&xa, &xb, <T::F as approx::AbsDiffEq>::default_epsilon()));
            same!("relative_eq", approx::RelativeEq::relative_eq(&a, &b, <T as approx::AbsDiffEq>::default_epsilon(), <T as approx::RelativeEq>::default_max_relative()), approx::RelativeEq::relative_eq(&xa, &xb, <T::F as approx::AbsDiffEq>::default_epsilon(), <T::F as approx::RelativeEq>::default_max_relative()));
            same!("ulps_eq", approx::UlpsEq::ulps_eq(&a, &b, <T as approx::AbsDiffEq>::default_epsilon(), 4), approx::UlpsEq::ulps_eq(&xa, &xb, <T::F as approx::AbsDiffEq>::default_epsilon(), 4));
        }
        // selection decides like the floats (the selected operand's own parts are C11)
        if !ra.is_nan() && !rb.is_nan() {
            let mx = nalgebra::RealField::max(a.clone(), b.clone()).re().to64();
            let mn = nalgebra::RealField::min(a.clone(), b.clone()).re().to64();
            let wmx = if xb > xa { rb } else { ra };
            let wmn = if xb < xa { rb } else { ra };
            same!("max", mx.to_bits(), wmx.to_bits());
            same!("min", mn.to_bits(), wmn.to_bits());
            let xcv = fc.vals[0];
            if !xcv.is_nan() && xa <= xc {
                // clamp(b, lo = a, hi = c)
                let cl = nalgebra::RealField::clamp(b.clone(), a.clone(), c.clone()).re().to64();
                let want = if xb < xa { ra } else if xb > xc { xcv } else { rb };
                same!("clamp", cl.to_bits(), want.to_bits());
            }
            // copysign follows the sign BIT of the second real part (signed zeros, infinities included)
            let cs = nalgebra::RealField::copysign(a.clone(), b.clone()).re().to64();
            same!("copysign", cs.to_bits(), nalgebra::RealField::copysign(xa, xb).to64().to_bits());
        }
        self.st.class(&format!("pair-class:{}", case.pc % 17));
        let nontrivial = (1..fa.vals.len()).any(|i| fa.vals[i] != fb.vals[i]) && matches!(case.pc % 17, 0..=4);
        if nontrivial && self.st.wants_sample() {
            self.st.sample(|| json!({"kind": "comparison", "type": T::tname(dims), "a": flat_json(&lay, &fa), "b": flat_json(&lay, &fb)}));
        }
        Verdict::Pass { nontrivial }
    }
}

/// the plain-float instances of the generic interface return what the standard library returns
fn std_equivalence(case: &Case, st: &mut Stats) -> Verdict {
    let f = UNARY[case.fun as usize % UNARY.len()];
    let x = case.pv;
    let y = case.pw;
    macro_rules! chk {
        ($what:expr, $got:expr, $want:expr) => {
            let (g, w) = ($got, $want);
            if g.to_bits() != w.to_bits() && !(g.is_nan() && w.is_nan()) {
                return Verdict::Fail { sig: format!("C06/std-equivalence/{}", $what), why: format!("plain float {}({x:e}, {y:e}) = {:e} but std gives {:e}", $what, g, w) };
            }
        };
    }
    // f64
    if !matches!(f, Fun::Abs | Fun::Signum) {
        chk!(f.name(), apply_un::<f64, f64>(f, &x), fun_f64(f, x));
    }
    chk!("mul_add", <f64 as DualNum<f64>>::mul_add(&x, y, 0.5), f64::mul_add(x, y, 0.5));
    chk!("powd", <f64 as DualNum<f64>>::powd(&x, y), f64::powf(x, y));
    chk!("powf", <f64 as DualNum<f64>>::powf(&x, y), f64::powf(x, y));
    chk!("powi", <f64 as DualNum<f64>>::powi(&x, case.fun as i32 - 8), f64::powi(x, case.fun as i32 - 8));
    chk!("atan2", <f64 as DualNum<f64>>::atan2(&x, y), f64::atan2(x, y));
    chk!("log", <f64 as DualNum<f64>>::log(&x, y), f64::log(x, y));
    chk!("re", <f64 as DualNum<f64>>::re(&x), x);
    let sc = <f64 as DualNum<f64>>::sin_cos(&x);
    chk!("sin_cos.0", sc.0, x.sin_cos().0);
    chk!("sin_cos.1", sc.1, x.sin_cos().1);
    // f32
    let (xf, yf) = (x as f32, y as f32);
    macro_rules! chk32 {
        ($what:expr, $got:expr, $want:expr) => {
            let (g, w): (f32, f32) = ($got, $want);
            if g.to_bits() != w.to_bits() && !(g.is_nan() && w.is_nan()) {
                return Verdict::Fail { sig: format!("C06/std-equivalence/f32/{}", $what), why: format!("plain f32 {}({xf:e}, {yf:e}) = {:e} but std gives {:e}", $what, g, w) };
            }
        };
    }
    let std32 = |f: Fun, x: f32| -> f32 {
        match f {
            Fun::Recip => x.recip(),
            Fun::Sqrt => x.sqrt(),
            Fun::Cbrt => x.cbrt(),
            Fun::Exp => x.exp(),
            Fun::Exp2 => x.exp2(),
            Fun::ExpM1 => x.exp_m1(),
            Fun::Ln => x.ln(),
            Fun::Log2 => x.log2(),
            Fun::Log10 => x.log10(),
            Fun::Ln1p => x.ln_1p(),
            Fun::Sin => x.sin(),
            Fun::Cos => x.cos(),
            Fun::Tan => x.tan(),
            Fun::Asin => x.asin(),
            Fun::Acos => x.acos(),
            Fun::Atan => x.atan(),
            Fun::Sinh => x.sinh(),
            Fun::Cosh => x.cosh(),
            Fun::Tanh => x.tanh(),
            Fun::Asinh => x.asinh(),
            Fun::Acosh => x.acosh(),
            Fun::Atanh => x.atanh(),
            _ => x,
        }
    };
    if !matches!(f, Fun::Abs | Fun::Signum) {
        chk32!(f.name(), apply_un::<f32, f32>(f, &xf), std32(f, xf));
    }
    chk32!("mul_add", <f32 as DualNum<f32>>::mul_add(&xf, yf, 0.5), f32::mul_add(xf, yf, 0.5));
    chk32!("powd", <f32 as DualNum<f32>>::powd(&xf, yf), f32::powf(xf, yf));
    chk32!("atan2", <f32 as DualNum<f32>>::atan2(&xf, yf), f32::atan2(xf, yf));
    st.class(&format!("std-equivalence:{}", f.name()));
    Verdict::Pass { nontrivial: true }
}

impl Property for C06 {
    type Case = Case;
    const ID: &'static str = "C06";
    fn strategy(tier: Tier) -> BoxedStrategy<Case> {
        (
            prop_oneof![6 => Just(0u8), 3 => Just(1u8), 1 => Just(2u8), 4 => Just(3u8)],
            c03::case_strategy(if tier == Tier::Quick { 10 } else { 24 }),
            proptest::collection::vec(parts_pool(), 3),
            proptest::collection::vec(proptest::collection::vec(proptest::bool::weighted(0.75), 8), 3),
            (any::<u8>(), prop_oneof![-3.0f64..3.0, (-8i32..=8).prop_map(|k| k as f64 / 2.0), (0.0f64..1.0).prop_map(|u| 10f64.powf(-5.0 + 10.0 * u))], -3.0f64..3.0, any::<u8>()),
        )
            .prop_map(|(kind, prog, parts_b, pres_b, (pc, pv, pw, fun))| Case { ty: prog.ty, dims: prog.dims, kind, prog, parts_b, pres_b, pc, pv, pw, fun })
            .boxed()
    }
    fn check(case: &Case, st: &mut Stats) -> Verdict {
        if c03::malformed(&case.prog) || case.ty != case.prog.ty || case.parts_b.is_empty() || case.parts_b.iter().any(|p| p.is_empty()) || case.pres_b.is_empty() || case.pres_b.iter().any(|p| p.is_empty()) || !case.pv.is_finite() || !case.pw.is_finite() {
            return Verdict::Trivial("malformed case");
        }
        let dims = [case.dims.0 as usize % 7, case.dims.1 as usize % 7];
        match case.kind % 4 {
            0 => {
                st.class("kind:program (metamorphic + float differential)");
                dispatch(case.ty, &dims, VProg { case, st })
            }
            1 => {
                st.class("kind:predicates");
                let v = dispatch(case.ty, &dims, VPred { case, st });
                match v {
                    Verdict::Pass { nontrivial } if TYPES[case.ty].field => {
                        let w = dispatch_field(case.ty, &dims, VField { case, st });
                        match w {
                            Verdict::Pass { nontrivial: n2 } => Verdict::Pass { nontrivial: nontrivial || n2 },
                            other => other,
                        }
                    }
                    other => other,
                }
            }
            2 => std_equivalence(case, st),
            _ => {
                st.class("kind:single operation on stratified real parts");
                dispatch(case.ty, &dims, VSingle { case, st })
            }
        }
    }
    fn cases(tier: Tier) -> u64 {
        match tier {
            Tier::Quick => 300_000,
            Tier::Thorough => 10_000_000,
        }
    }
    fn rule() -> String {
        "four generated checks. (0) single operations: every unary function on the stratified real parts of C01 (negative, tiny, large, f32 ranges) with two independent part assignments: real part bit-identical and within 4 ulp (tan, tanh 8 ulp) of the plain float function; (1) metamorphic: a generated program (as C03) is evaluated twice on every type with the same real inputs and two independent assignments of all derivative parts (one third: all parts absent/zero): re() of EVERY node must be bit-identical; (2) differential: the same program on plain f32/f64 through the generic interface, every node's real part within 32 u e (single operations 8 u e) of the float result; the plain-float instances themselves against the std methods bit for bit (mul_add fused, powd = powf, ...); (3) pairs (a, b) with real parts from {equal, adjacent floats, close (relative 4e-4, absolute 5e-10, 1e-9 against 0), +-0 (also against a non-zero value), +-inf, NaN, 0, 1, random} and arbitrary parts: == != < <= > >= partial_cmp and the approx traits (abs_diff_eq, relative_eq, ulps_eq with default and with five generated tolerance combinations) on the field-compatible types and min/max/clamp/copysign decide like the floats (copysign by the sign bit, so -0.0 counts as negative); on every type is_zero, is_one, is_positive, is_negative, abs, signum (away from exact zeros), abs_sub decide by the real part. Non-trivial: the two assignments differ in >= 2 parts / the compared pair has equal or adjacent real parts but different parts.".into()
    }
    fn assumptions() -> Vec<String> {
        vec!["signum at exact zeros is outside the property (discontinuity)".into()]
    }
}
