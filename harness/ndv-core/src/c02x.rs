//! C02 exhaustive sub-claim: complete tensor grids for the five scalar f64 types.
//!
//! Every part of a product is a multi-affine polynomial of the operand parts for the hyper-dual
//! types (each generator occurs at most once) and of degree <= order in the first-order part for
//! Dual2 / Dual3; with deg+1 points per operand part agreement on the tensor grid determines the
//! polynomial. Divisor real parts are powers of two.

use crate::c02::{check_op, Case, Op2};
use crate::engine::{Stats, Tier, Verdict};
use crate::types::{Flat, Ty};
use num_dual::*;

/// grid values (k * 2^-s, |k| <= 8, s <= 3), deliberately all different and sign-mixed
const PTS: [[f64; 4]; 8] = [
    [1.5, -2.0, 0.25, -3.0],
    [-0.5, 3.0, 1.25, -1.0],
    [2.0, -0.75, -2.5, 0.5],
    [-1.5, 0.375, 4.0, -0.25],
    [0.75, -3.5, 1.0, 2.5],
    [-2.0, 1.75, -0.125, 3.5],
    [3.0, -1.25, 0.625, -4.0],
    [-0.375, 2.5, -1.75, 6.0],
];
const POW2: [f64; 4] = [2.0, -4.0, 0.5, -0.125];

fn enumerate<T>(op: Op2, na: &[usize], nb: &[usize], pow2_a: bool, pow2_b: bool, st: &mut Stats, fails: &mut Vec<(Case, String, String)>, tid: usize)
where
    T: Ty + DualNum<<T as Ty>::F>,
{
    let dims: [usize; 2] = [0, 0];
    let lay = T::layout(&dims);
    let n = lay.slots.len();
    assert_eq!(na.len(), n);
    assert_eq!(nb.len(), n);
    let total_a: usize = na.iter().product();
    let total_b: usize = nb.iter().product();
    let val = |slot: usize, k: usize, pow2: bool, shift: usize| -> f64 {
        if slot == 0 && pow2 {
            POW2[k]
        } else {
            PTS[(slot + shift) % 8][k]
        }
    };
    for ia in 0..total_a {
        let mut r = ia;
        let mut va = Vec::with_capacity(n);
        for (s, cnt) in na.iter().enumerate() {
            va.push(val(s, r % cnt, pow2_a, 0));
            r /= cnt;
        }
        let fa = Flat { vals: va, pres: vec![] };
        for ib in 0..total_b {
            let mut r = ib;
            let mut vb = Vec::with_capacity(n);
            for (s, cnt) in nb.iter().enumerate() {
                vb.push(val(s, r % cnt, pow2_b, 3));
                r /= cnt;
            }
            let fb = Flat { vals: vb, pres: vec![] };
            let mut tmp = Stats::new();
            tmp.frozen = true;
            let v = check_op::<T>(&dims, op, &fa, &fb, true, &mut tmp, &lay);
            st.evaluations += 1;
            match v {
                Verdict::Pass { .. } => {
                    st.passes += 1;
                    st.count("exhaustive_grid_points", 1);
                }
                Verdict::Trivial(_) => st.count("exhaustive_grid_points_out_of_domain", 1),
                Verdict::Fail { sig, why } => {
                    if fails.len() < 4 {
                        let case = Case {
                            ty: tid,
                            dims: (0, 0),
                            op,
                            grid: true,
                            a: fa.vals[1..].to_vec(),
                            b: fb.vals[1..].to_vec(),
                            ra: fa.vals[0],
                            rb: fb.vals[0],
                            pres_a: vec![true],
                            pres_b: vec![true],
                            zero: vec![false],
                            form: 0,
                        };
                        fails.push((case, sig, format!("[exhaustive grid] {why}")));
                    }
                }
            }
        }
    }
}

fn for_type<T>(tid: usize, deg: &[usize], multi_affine: bool, st: &mut Stats, fails: &mut Vec<(Case, String, String)>)
where
    T: Ty + DualNum<<T as Ty>::F>,
{
    let n = deg.len();
    let two = vec![2usize; n];
    let one = vec![1usize; n];
    // linear / bilinear maps: two points per part
    for op in [Op2::Add, Op2::Sub, Op2::Mul] {
        enumerate::<T>(op, &two, &two, false, false, st, fails, tid);
    }
    enumerate::<T>(Op2::Neg, &two, &one, false, false, st, fails, tid);
    // quotient: numerator linear, divisor parts with deg+1 points, divisor real part from 4 powers of two
    let mut den: Vec<usize> = deg.iter().map(|d| if multi_affine { 2 } else { (d + 1).min(4) }).collect();
    den[0] = 4;
    enumerate::<T>(Op2::Div, &two, &den, false, true, st, fails, tid);
    enumerate::<T>(Op2::Recip, &den, &one, true, false, st, fails, tid);
    // integer powers
    let mut pw: Vec<usize> = deg.iter().map(|d| if multi_affine { 2 } else { (d + 1).min(4) }).collect();
    pw[0] = 4;
    for nexp in -3..=6 {
        enumerate::<T>(Op2::Powi(nexp), &pw, &one, nexp < 0, false, st, fails, tid);
    }
}

pub fn exhaustive(_tier: Tier, st: &mut Stats) -> Vec<(Case, String, String)> {
    let mut fails = vec![];
    // degree of the result in each operand part (slot order = registry layout)
    for_type::<Dual64>(0, &[1, 1], true, st, &mut fails);
    for_type::<Dual2_64>(1, &[1, 2, 1], false, st, &mut fails);
    for_type::<Dual3_64>(2, &[1, 3, 1, 1], false, st, &mut fails);
    for_type::<HyperDual64>(3, &[1, 1, 1, 1], true, st, &mut fails);
    for_type::<HyperHyperDual64>(4, &[1, 1, 1, 1, 1, 1, 1, 1], true, st, &mut fails);
    st.class("exhaustive tensor grids enumerated (5 scalar f64 types)");
    fails
}
