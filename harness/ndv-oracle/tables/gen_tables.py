#!/usr/bin/env python3-vt
"""Generates tables/reference.json with 40-digit mpmath values of g^(k)(x), k = 0..4, for the
reference functions of ndv-oracle (run once; the JSON is committed)."""
import json, mpmath as mp
mp.mp.dps = 60

def sph(n):
    def f(x):
        if x == 0:
            return mp.mpf(1) if n == 0 else mp.mpf(0)
        return mp.sqrt(mp.pi/(2*x)) * mp.besselj(n + mp.mpf(1)/2, x) if x > 0 else (-1)**n * mp.sqrt(mp.pi/(2*-x)) * mp.besselj(n + mp.mpf(1)/2, -x)
    return f
def sph_series(n, x, k):
    # derivative via the power series (exact for all x, used near 0)
    s = mp.mpf(0)
    for m in range(0, 60):
        p = n + 2*m
        if p < k: continue
        c = (-1)**m / (mp.mpf(2)**m * mp.factorial(m) * mp.fac2(2*n+2*m+1))
        s += c * mp.ff(p, k) * mp.mpf(x)**(p-k)
    return s

F = {
 'recip': (lambda x: 1/x, [0.3, -2.5, 100.0, 1e-3]),
 'sqrt': (mp.sqrt, [0.3, 2.5, 1e4, 1e-3]),
 'cbrt': (lambda x: mp.sign(x)*mp.cbrt(abs(x)), [0.3, 2.5, 1e4]),
 'exp': (mp.exp, [0.3, -2.5, 20.0, 1e-6]),
 'exp2': (lambda x: mp.mpf(2)**x, [0.3, -2.5, 20.0]),
 'exp_m1': (mp.expm1, [0.3, -2.5, 1e-9]),
 'ln': (mp.log, [0.3, 2.5, 1e4, 0.999]),
 'log2': (lambda x: mp.log(x, 2), [0.3, 2.5]),
 'log10': (lambda x: mp.log(x, 10), [0.3, 2.5]),
 'ln_1p': (mp.log1p, [0.3, -0.5, 1e-9, 50.0]),
 'sin': (mp.sin, [0.3, -2.5, 100.0]),
 'cos': (mp.cos, [0.3, -2.5, 100.0]),
 'tan': (mp.tan, [0.3, -1.2, 100.0]),
 'asin': (mp.asin, [0.3, -0.9, 1e-6]),
 'acos': (mp.acos, [0.3, -0.9, 1e-6]),
 'atan': (mp.atan, [0.3, -2.5, 1e3]),
 'sinh': (mp.sinh, [0.3, -2.5, 20.0]),
 'cosh': (mp.cosh, [0.3, -2.5, 20.0]),
 'tanh': (mp.tanh, [0.3, -2.5, 20.0, 1e-6]),
 'asinh': (mp.asinh, [0.3, -2.5, 1e3]),
 'acosh': (mp.acosh, [1.3, 2.5, 1e3]),
 'atanh': (mp.atanh, [0.3, -0.9, 1e-6]),
}
rows = []
for name, (f, xs) in F.items():
    for x in xs:
        xm = mp.mpf(x)
        ders = [mp.diff(f, xm, k, h=mp.mpf(10)**-12) if k else f(xm) for k in range(5)]
        rows.append({'f': name, 'x': x, 'd': [mp.nstr(v, 25) for v in ders]})
for n in range(3):
    for x in [0.0, 1e-9, 1e-3, 0.3, -0.7, 0.999, 1.0, 1.5, -4.0, 10.0, 50.0]:
        ders = [sph_series(n, x, k) if abs(x) < 3 else mp.diff(sph(n), mp.mpf(x), k, h=mp.mpf(10)**-12) if k else sph(n)(mp.mpf(x)) for k in range(5)]
        rows.append({'f': f'sph_j{n}', 'x': x, 'd': [mp.nstr(v, 25) for v in ders]})
    for x in [0.0, 1e-9, 1e-5, 1e-3, 0.3, -0.7, 1.0, 1.9, 2.0, 4.9, 5.0, 5.1, -8.0, 20.0, 59.0]:
        f = lambda t, n=n: mp.besselj(n, t)
        ders = [mp.besselj(n, mp.mpf(x), derivative=k) for k in range(5)]
        rows.append({'f': f'bessel_j{n}', 'x': x, 'd': [mp.nstr(v, 25) for v in ders]})
json.dump(rows, open(__file__.rsplit('/',1)[0] + '/reference.json', 'w'), indent=0)
print(len(rows), 'rows')
