//! The "group-nilsquare" algebra of DESIGN.md 3.2.
//!
//! Generators are organised in groups G_1..G_d of sizes n_1..n_d. A monomial picks from every
//! group either nothing (digit 0) or exactly one generator (digit 1..=n_i); all other products
//! vanish. An element is a coefficient per monomial, the product is the disjoint-union
//! convolution, and g(a0 + N) = sum_{k<=d} t_k N^k.

use crate::ring::R;
use crate::taylor::{self, Fun, Ser};
use std::sync::Arc;

pub type Mono = Vec<u8>;

#[derive(Debug)]
pub struct Alg {
    pub sizes: Vec<usize>,
    /// digits of every monomial index
    pub monos: Vec<Mono>,
    /// total degree of every monomial
    pub deg: Vec<u8>,
    /// (i, j, k): mono_i * mono_j = mono_k, for all valid pairs with i, j != 0
    pub table: Vec<(u16, u16, u16)>,
    strides: Vec<usize>,
}

impl Alg {
    pub fn new(sizes: &[usize]) -> Arc<Alg> {
        let mut strides = Vec::with_capacity(sizes.len());
        let mut n = 1usize;
        for &s in sizes {
            strides.push(n);
            n *= s + 1;
        }
        assert!(n <= 4096, "algebra too large: {:?}", sizes);
        let mut monos = Vec::with_capacity(n);
        let mut deg = Vec::with_capacity(n);
        for idx in 0..n {
            let mut r = idx;
            let mut m = Vec::with_capacity(sizes.len());
            let mut dg = 0u8;
            for &s in sizes {
                let dgt = (r % (s + 1)) as u8;
                r /= s + 1;
                if dgt != 0 {
                    dg += 1;
                }
                m.push(dgt);
            }
            monos.push(m);
            deg.push(dg);
        }
        let mut table = Vec::new();
        for i in 1..n {
            for j in 1..n {
                let mut ok = true;
                for g in 0..sizes.len() {
                    if monos[i][g] != 0 && monos[j][g] != 0 {
                        ok = false;
                        break;
                    }
                }
                if ok {
                    table.push((i as u16, j as u16, (i + j) as u16));
                }
            }
        }
        Arc::new(Alg { sizes: sizes.to_vec(), monos, deg, table, strides })
    }
    pub fn len(&self) -> usize {
        self.monos.len()
    }
    pub fn is_empty(&self) -> bool {
        false
    }
    /// number of groups = nilpotency order of the augmentation ideal
    pub fn depth(&self) -> usize {
        self.sizes.len()
    }
    pub fn index(&self, m: &[u8]) -> usize {
        m.iter().zip(&self.strides).map(|(d, s)| *d as usize * s).sum()
    }
}

#[derive(Clone, Debug)]
pub struct Jet {
    pub alg: Arc<Alg>,
    pub c: Vec<R>,
}

impl Jet {
    pub fn zero(alg: &Arc<Alg>) -> Jet {
        Jet { alg: alg.clone(), c: vec![R::ZERO; alg.len()] }
    }
    pub fn constant(alg: &Arc<Alg>, v: R) -> Jet {
        let mut j = Jet::zero(alg);
        j.c[0] = v;
        j
    }
    pub fn re(&self) -> R {
        self.c[0]
    }
    pub fn add(&self, o: &Jet) -> Jet {
        Jet { alg: self.alg.clone(), c: self.c.iter().zip(&o.c).map(|(a, b)| *a + *b).collect() }
    }
    pub fn sub(&self, o: &Jet) -> Jet {
        Jet { alg: self.alg.clone(), c: self.c.iter().zip(&o.c).map(|(a, b)| *a - *b).collect() }
    }
    pub fn neg(&self) -> Jet {
        Jet { alg: self.alg.clone(), c: self.c.iter().map(|a| -*a).collect() }
    }
    pub fn scale(&self, k: R) -> Jet {
        Jet { alg: self.alg.clone(), c: self.c.iter().map(|a| *a * k).collect() }
    }
    pub fn unscale(&self, k: R) -> Jet {
        Jet { alg: self.alg.clone(), c: self.c.iter().map(|a| *a / k).collect() }
    }
    pub fn add_scalar(&self, k: R) -> Jet {
        let mut r = self.clone();
        r.c[0] = r.c[0] + k;
        r
    }
    pub fn mul(&self, o: &Jet) -> Jet {
        let n = self.c.len();
        let mut r = vec![R::ZERO; n];
        let a0 = self.c[0];
        let b0 = o.c[0];
        r[0] = a0 * b0;
        for i in 1..n {
            r[i] = self.c[i] * b0 + a0 * o.c[i];
        }
        for &(i, j, k) in &self.alg.table {
            let (a, b) = (self.c[i as usize], o.c[j as usize]);
            if a.is_exact_zero() || b.is_exact_zero() {
                continue;
            }
            let k = k as usize;
            r[k] = r[k] + a * b;
        }
        Jet { alg: self.alg.clone(), c: r }
    }
    /// sum_k t_k N^k with N the nilpotent part of self (Horner)
    pub fn compose(&self, t: &Ser) -> Jet {
        let d = self.alg.depth();
        assert!(t.len() > d, "need Taylor data to order {}", d);
        let mut nil = self.clone();
        nil.c[0] = R::ZERO;
        let mut acc = Jet::constant(&self.alg, t[d]);
        for k in (0..d).rev() {
            acc = acc.mul(&nil);
            acc.c[0] = acc.c[0] + t[k];
        }
        acc
    }
    /// first-order error analysis of a non-linear function needs an argument with significant digits
    fn significant(&self) -> bool {
        let x = self.c[0];
        crate::ring::unit() * x.e * 16.0 <= x.v.abs() || x.e == 0.0
    }
    pub fn apply(&self, f: Fun) -> Option<Jet> {
        if !self.significant() && !matches!(f, Fun::Sin | Fun::Cos | Fun::Exp | Fun::ExpM1 | Fun::Atan | Fun::Sinh | Fun::Cosh | Fun::Tanh | Fun::Asinh | Fun::Exp2) {
            return None;
        }
        let t = taylor::taylor(f, self.c[0], self.alg.depth())?;
        Some(self.compose(&t))
    }
    pub fn recip(&self) -> Option<Jet> {
        self.apply(Fun::Recip)
    }
    pub fn div(&self, o: &Jet) -> Option<Jet> {
        let b0 = o.c[0].v.abs();
        if b0.is_finite() && (b0 > 1e60 || (b0 < 1e-60 && b0 > 0.0)) {
            // divisor of extreme magnitude: 1/b^2, 1/b^3 ... leave the range of f64 although the
            // quotient's parts do not. Scale both operands by the same power of two (exact) first.
            let s = (-b0.log2().floor()).exp2();
            let sc = |j: &Jet| Jet { alg: j.alg.clone(), c: j.c.iter().map(|a| R { v: a.v * s, e: a.e * s, m: a.m * s, x: a.x }).collect() };
            let (a2, b2) = (sc(self), sc(o));
            if a2.c.iter().zip(&self.c).chain(b2.c.iter().zip(&o.c)).all(|(n, old)| n.v.is_finite() && (n.v != 0.0 || old.v == 0.0)) {
                return Some(a2.mul(&b2.recip()?));
            }
        }
        Some(self.mul(&o.recip()?))
    }
    pub fn powf(&self, n: f64, leaf_units: f64) -> Option<Jet> {
        if !self.significant() {
            return None;
        }
        let t = taylor::taylor_powf(self.c[0], n, self.alg.depth(), leaf_units)?;
        Some(self.compose(&t))
    }
    /// x^n with the value from the direct Taylor data and the rounding bound of the library's
    /// algorithm x^(n-3) * x * x * x applied on each of `levels` nesting levels (the products
    /// re-create the low-order parts from large cancelling terms when |n| is small).
    pub fn powf_lib(&self, n: f64, leaf_units: f64, levels: usize) -> Option<Jet> {
        let mut v = self.powf(n, leaf_units)?;
        if self.c[0].v == 0.0 {
            return Some(v);
        }
        // the outermost level evaluates the closed forms n x^(n-1), n (n-1) x^(n-2), ... directly; only
        // the inner levels see the products x^(n-3) x x x in dual arithmetic
        let k = 3 * levels.saturating_sub(1);
        if k == 0 {
            return Some(v);
        }
        let mut b = self.powf(n - k as f64, leaf_units)?;
        for _ in 0..k {
            b = b.mul(self);
        }
        for (cv, cb) in v.c.iter_mut().zip(&b.c) {
            if cb.e.is_finite() {
                cv.e = cv.e.max(cb.e);
                cv.m = cv.m.max(cb.m);
            }
        }
        Some(v)
    }
    pub fn log(&self, base: f64) -> Option<Jet> {
        if !self.significant() {
            return None;
        }
        let t = taylor::taylor_log(self.c[0], base, self.alg.depth())?;
        Some(self.compose(&t))
    }
    /// exp(y ln x)
    pub fn powd(&self, y: &Jet) -> Option<Jet> {
        let l = self.apply(Fun::Ln)?;
        l.mul(y).apply(Fun::Exp)
    }
    /// atan2(self = y, x): regular on both axes away from the origin
    pub fn atan2(&self, x: &Jet) -> Option<Jet> {
        let (y0, x0) = (self.c[0].v, x.c[0].v);
        if y0 == 0.0 && x0 == 0.0 {
            return None;
        }
        let mut r = if x0.abs() >= y0.abs() {
            self.div(x)?.apply(Fun::Atan)?
        } else {
            x.div(self)?.apply(Fun::Atan)?.neg()
        };
        let v = y0.atan2(x0);
        let den = x0 * x0 + y0 * y0;
        r.c[0] = R {
            v,
            e: (x0.abs() * self.c[0].e + y0.abs() * x.c[0].e) / den + v.abs(),
            m: v.abs(),
            x: false,
        };
        Some(r)
    }
    pub fn all_finite(&self) -> bool {
        self.c.iter().all(|r| r.is_finite())
    }
}
