//! Coefficient ring of the reference algebra.
//!
//! An element carries
//!   v : the reference value (f64),
//!   e : a running first-order bound, in units of the unit roundoff `u` of the type under test,
//!       on the absolute error of a *natural* floating-point evaluation of the same quantity
//!       (inputs: 0; every operation adds the propagated operand errors plus one rounding of
//!       the result),
//!   m : the summed magnitude of the contributing terms when all cancellation is ignored
//!       (|a|+|b| for sums, m_a*m_b for products); e/m is the amplification by cancellation,
//!   x : true iff v is *exactly* the mathematical value (every operation so far was verified
//!       to be rounding-free with TwoSum / FMA residuals).
//!
//! One ring serves both oracles of DESIGN.md 3.3: the exact ring (x == true => bit equality can
//! be demanded) and the error-tracking ring (tolerance K*u*e).

use std::cell::Cell;
use std::ops::{Add, Div, Mul, Neg, Sub};

thread_local! {
    /// unit roundoff of the type under test; only used for the second-order terms e_a*e_b*u
    static UNIT: Cell<f64> = const { Cell::new(1.1102230246251565e-16) };
}
/// tell the ring which unit roundoff the bounds `e` are multiples of
pub fn set_unit(u: f64) {
    UNIT.with(|c| c.set(u));
}
#[inline]
pub fn unit() -> f64 {
    UNIT.with(|c| c.get())
}

#[derive(Clone, Copy, Debug)]
pub struct R {
    pub v: f64,
    pub e: f64,
    pub m: f64,
    pub x: bool,
}

impl R {
    pub const ZERO: R = R { v: 0.0, e: 0.0, m: 0.0, x: true };
    pub const ONE: R = R { v: 1.0, e: 0.0, m: 1.0, x: true };

    /// An input / exactly representable constant.
    #[inline]
    pub fn exact(v: f64) -> R {
        R { v, e: 0.0, m: v.abs(), x: true }
    }
    /// A constant that is only known to one rounding (ln 2, 1/3, ...).
    #[inline]
    pub fn rounded(v: f64) -> R {
        R { v, e: v.abs(), m: v.abs(), x: false }
    }
    /// Value of a library (leaf) function `f` at `x`: `fx = f(x.v)`, `dfx = f'(x.v)`;
    /// `ulps` is the accuracy granted to the leaf function itself.
    #[inline]
    pub fn leaf(x: R, fx: f64, dfx: f64, ulps: f64) -> R {
        // second-order term 0.5 |f''| (u e_x)^2 / u with |f''| <= max(|f|, |f'|, 1) (true for the
        // functions whose derivative can vanish while the function does not: sin, cos, sinh, cosh,
        // exp, atan, asinh, tanh, ...; for the others the significance guard keeps it negligible)
        let d2 = fx.abs().max(dfx.abs()).max(1.0);
        R {
            v: fx,
            e: dfx.abs() * x.e * (1.0 + unit() * x.e) + 0.5 * d2 * unit() * x.e * x.e + ulps * fx.abs(),
            m: fx.abs(),
            x: false,
        }
    }
    /// as `leaf`, with an explicit bound `d2` of |f''| in the neighbourhood of `x` (for functions whose
    /// curvature falls off at large arguments, where `leaf`'s max(|f|, |f'|, 1) is far too large)
    #[inline]
    pub fn leaf2(x: R, fx: f64, dfx: f64, d2: f64, ulps: f64) -> R {
        R {
            v: fx,
            e: dfx.abs() * x.e + d2.abs() * unit() * x.e * x.e + ulps * fx.abs(),
            m: fx.abs(),
            x: false,
        }
    }
    #[inline]
    pub fn is_exact_zero(&self) -> bool {
        self.v == 0.0 && self.e == 0.0 && self.x
    }
    #[inline]
    pub fn abs(self) -> R {
        R { v: self.v.abs(), ..self }
    }
    /// multiply by an exactly representable small integer / power of two (still one rounding)
    #[inline]
    pub fn scale(self, k: f64) -> R {
        self * R::exact(k)
    }
    pub fn is_finite(&self) -> bool {
        self.v.is_finite() && self.e.is_finite()
    }
}

#[inline]
fn two_sum_exact(a: f64, b: f64, s: f64) -> bool {
    if !s.is_finite() {
        return false;
    }
    let bb = s - a;
    let err = (a - (s - bb)) + (b - bb);
    err == 0.0
}

impl Add for R {
    type Output = R;
    #[inline]
    fn add(self, o: R) -> R {
        if o.is_exact_zero() {
            return self;
        }
        if self.is_exact_zero() {
            return o;
        }
        let v = self.v + o.v;
        let ex = self.x && o.x && two_sum_exact(self.v, o.v, v);
        R {
            v,
            // charged at the magnitude of the operands (not of the result): a sum of several terms
            // evaluated in another order has partial sums as large as the terms themselves
            e: self.e + o.e + self.v.abs().max(o.v.abs()),
            m: self.m + o.m,
            x: ex,
        }
    }
}
impl Sub for R {
    type Output = R;
    #[inline]
    fn sub(self, o: R) -> R {
        self + (-o)
    }
}
impl Neg for R {
    type Output = R;
    #[inline]
    fn neg(self) -> R {
        R { v: -self.v, ..self }
    }
}
impl Mul for R {
    type Output = R;
    #[inline]
    fn mul(self, o: R) -> R {
        if self.is_exact_zero() || o.is_exact_zero() {
            // an exact zero annihilates (also non-finite partners: they are out of domain anyway)
            return R::ZERO;
        }
        let v = self.v * o.v;
        let ex = self.x
            && o.x
            && v.is_finite()
            && (v == 0.0 || v.abs() >= 1e-290)
            && self.v.mul_add(o.v, -v) == 0.0;
        // multiplication by an exact +-1 is no operation
        let one = (self.x && self.v.abs() == 1.0) || (o.x && o.v.abs() == 1.0);
        R {
            v,
            e: self.v.abs() * o.e + o.v.abs() * self.e + unit() * self.e * o.e + if one { 0.0 } else { v.abs() },
            m: self.m * o.m,
            x: ex,
        }
    }
}
impl Div for R {
    type Output = R;
    #[inline]
    fn div(self, o: R) -> R {
        if self.is_exact_zero() {
            return R::ZERO;
        }
        let v = self.v / o.v;
        let ex = self.x
            && o.x
            && v.is_finite()
            && (v == 0.0 || v.abs() >= 1e-290)
            && v.mul_add(o.v, -self.v) == 0.0;
        let one = o.x && o.v.abs() == 1.0;
        R {
            v,
            e: (self.e / o.v.abs() + self.v.abs() * o.e / (o.v * o.v)) * (1.0 + 2.0 * unit() * o.e / o.v.abs()) + if one { 0.0 } else { v.abs() },
            m: self.m / o.v.abs(),
            x: ex,
        }
    }
}

impl From<f64> for R {
    fn from(v: f64) -> R {
        R::exact(v)
    }
}
