//! Taylor data t_k = g^(k)(x0)/k!, k = 0..=d, of the interface functions, written as power-series
//! recurrences over the ring `R` (so every coefficient carries its own rounding bound and the
//! cancellations inside closed forms such as 6x^2-2 are charged at the magnitude of their terms).
//!
//! The recurrences are deliberately NOT the closed forms used by the library: they are the
//! textbook ODE/series recurrences (Brent-Kung / Griewank), so library and oracle share nothing
//! but the leaf calls into libm.

use crate::ring::R;

pub type Ser = Vec<R>;

/// accuracy (in ulps) granted to a libm leaf call
const LEAF: f64 = 1.0;

fn zeros(d: usize) -> Ser {
    vec![R::ZERO; d + 1]
}

/// the series of the identity x0 + h
pub fn ident(x0: R, d: usize) -> Ser {
    let mut s = zeros(d);
    s[0] = x0;
    if d >= 1 {
        s[1] = R::ONE;
    }
    s
}

pub fn s_add(a: &Ser, b: &Ser) -> Ser {
    a.iter().zip(b).map(|(x, y)| *x + *y).collect()
}
pub fn s_sub(a: &Ser, b: &Ser) -> Ser {
    a.iter().zip(b).map(|(x, y)| *x - *y).collect()
}
pub fn s_neg(a: &Ser) -> Ser {
    a.iter().map(|x| -*x).collect()
}
pub fn s_scale(a: &Ser, k: R) -> Ser {
    a.iter().map(|x| *x * k).collect()
}
pub fn s_mul(a: &Ser, b: &Ser) -> Ser {
    let n = a.len();
    let mut r = vec![R::ZERO; n];
    for k in 0..n {
        let mut acc = R::ZERO;
        for j in 0..=k {
            acc = acc + a[j] * b[k - j];
        }
        r[k] = acc;
    }
    r
}
/// a / b
pub fn s_div(a: &Ser, b: &Ser) -> Ser {
    let n = a.len();
    let mut q = vec![R::ZERO; n];
    for k in 0..n {
        let mut acc = a[k];
        for j in 0..k {
            acc = acc - q[j] * b[k - j];
        }
        q[k] = acc / b[0];
    }
    q
}
/// u^a for a series u with u_0 != 0, given y0 = u_0^a:  k u_0 y_k = sum_{j=1..k} (a j - (k-j)) u_j y_{k-j}
pub fn s_pow(u: &Ser, a: R, y0: R) -> Ser {
    let n = u.len();
    let mut y = vec![R::ZERO; n];
    y[0] = y0;
    for k in 1..n {
        let mut acc = R::ZERO;
        for j in 1..=k {
            let c = a * R::exact(j as f64) - R::exact((k - j) as f64);
            acc = acc + c * u[j] * y[k - j];
        }
        y[k] = acc / (R::exact(k as f64) * u[0]);
    }
    y
}
/// integrate: result_k = w_{k-1}/k, result_0 = c
pub fn s_int(w: &Ser, c: R) -> Ser {
    let n = w.len();
    let mut r = vec![R::ZERO; n];
    r[0] = c;
    for k in 1..n {
        r[k] = w[k - 1] / R::exact(k as f64);
    }
    r
}

fn fact(k: usize) -> f64 {
    (1..=k).map(|i| i as f64).product()
}

/// identifiers of the unary functions of the interface
#[derive(Clone, Copy, Debug, PartialEq, Eq, Hash, PartialOrd, Ord)]
pub enum Fun {
    Recip,
    Sqrt,
    Cbrt,
    Exp,
    Exp2,
    ExpM1,
    Ln,
    Log2,
    Log10,
    Ln1p,
    Sin,
    Cos,
    Tan,
    Asin,
    Acos,
    Atan,
    Sinh,
    Cosh,
    Tanh,
    Asinh,
    Acosh,
    Atanh,
    Abs,
    Signum,
    SphJ0,
    SphJ1,
    SphJ2,
    BesselJ0,
    BesselJ1,
    BesselJ2,
}

pub const ALL_FUNS: [Fun; 30] = [
    Fun::Recip,
    Fun::Sqrt,
    Fun::Cbrt,
    Fun::Exp,
    Fun::Exp2,
    Fun::ExpM1,
    Fun::Ln,
    Fun::Log2,
    Fun::Log10,
    Fun::Ln1p,
    Fun::Sin,
    Fun::Cos,
    Fun::Tan,
    Fun::Asin,
    Fun::Acos,
    Fun::Atan,
    Fun::Sinh,
    Fun::Cosh,
    Fun::Tanh,
    Fun::Asinh,
    Fun::Acosh,
    Fun::Atanh,
    Fun::Abs,
    Fun::Signum,
    Fun::SphJ0,
    Fun::SphJ1,
    Fun::SphJ2,
    Fun::BesselJ0,
    Fun::BesselJ1,
    Fun::BesselJ2,
];

impl Fun {
    pub fn name(self) -> &'static str {
        match self {
            Fun::Recip => "recip",
            Fun::Sqrt => "sqrt",
            Fun::Cbrt => "cbrt",
            Fun::Exp => "exp",
            Fun::Exp2 => "exp2",
            Fun::ExpM1 => "exp_m1",
            Fun::Ln => "ln",
            Fun::Log2 => "log2",
            Fun::Log10 => "log10",
            Fun::Ln1p => "ln_1p",
            Fun::Sin => "sin",
            Fun::Cos => "cos",
            Fun::Tan => "tan",
            Fun::Asin => "asin",
            Fun::Acos => "acos",
            Fun::Atan => "atan",
            Fun::Sinh => "sinh",
            Fun::Cosh => "cosh",
            Fun::Tanh => "tanh",
            Fun::Asinh => "asinh",
            Fun::Acosh => "acosh",
            Fun::Atanh => "atanh",
            Fun::Abs => "abs",
            Fun::Signum => "signum",
            Fun::SphJ0 => "sph_j0",
            Fun::SphJ1 => "sph_j1",
            Fun::SphJ2 => "sph_j2",
            Fun::BesselJ0 => "bessel_j0",
            Fun::BesselJ1 => "bessel_j1",
            Fun::BesselJ2 => "bessel_j2",
        }
    }
    pub fn from_name(s: &str) -> Option<Fun> {
        ALL_FUNS.iter().copied().find(|f| f.name() == s)
    }
}

/// Taylor coefficients of x^a at x0 (x0 != 0) given the leaf value y0 = x0^a.
fn pow_coeffs(x0: R, a: R, y0: R, d: usize) -> Ser {
    let mut t = zeros(d);
    t[0] = y0;
    for k in 1..=d {
        // t_k = t_{k-1} (a-k+1) / (k x0)
        let c = a - R::exact((k - 1) as f64);
        t[k] = t[k - 1] * c / (R::exact(k as f64) * x0);
    }
    t
}

/// Taylor coefficients of ln(y0 + h): (-1)^{k-1}/(k y0^k), with t_0 given.
fn ln_coeffs(y0: R, t0: R, d: usize) -> Ser {
    let mut t = zeros(d);
    t[0] = t0;
    let mut p = R::ONE; // (-1)^{k-1} / y0^k
    for k in 1..=d {
        p = if k == 1 { R::ONE / y0 } else { -(p / y0) };
        t[k] = p / R::exact(k as f64);
    }
    t
}

/// sin/cos type cyclic coefficients from the four leaf values d0,d1,d2,d3 (the first four derivatives)
fn cyc(dv: [R; 4], d: usize) -> Ser {
    (0..=d).map(|k| dv[k % 4] / R::exact(fact(k))).collect()
}

pub fn sin_ser(x0: R, d: usize) -> Ser {
    let (s, c) = x0.v.sin_cos();
    let sv = R::leaf(x0, s, c, LEAF);
    let cv = R::leaf(x0, c, s, LEAF);
    cyc([sv, cv, -sv, -cv], d)
}
pub fn cos_ser(x0: R, d: usize) -> Ser {
    let (s, c) = x0.v.sin_cos();
    let sv = R::leaf(x0, s, c, LEAF);
    let cv = R::leaf(x0, c, s, LEAF);
    cyc([cv, -sv, -cv, sv], d)
}
pub fn sinh_ser(x0: R, d: usize) -> Ser {
    let (s, c) = (x0.v.sinh(), x0.v.cosh());
    let sv = R::leaf(x0, s, c, LEAF);
    let cv = R::leaf(x0, c, s, LEAF);
    cyc([sv, cv, sv, cv], d)
}
pub fn cosh_ser(x0: R, d: usize) -> Ser {
    let (s, c) = (x0.v.sinh(), x0.v.cosh());
    let sv = R::leaf(x0, s, c, LEAF);
    let cv = R::leaf(x0, c, s, LEAF);
    cyc([cv, sv, cv, sv], d)
}
pub fn exp_ser(x0: R, d: usize) -> Ser {
    let ev = x0.v.exp();
    let e = R::leaf(x0, ev, ev, LEAF);
    (0..=d).map(|k| e / R::exact(fact(k))).collect()
}

/// coefficients of 1 + c*x^2 around x0 (c = +-1), plus optional offset: returns series of (a0 + c x^2)
fn quad(x0: R, a0: f64, c: f64, d: usize) -> Ser {
    let mut u = zeros(d);
    u[0] = R::exact(a0) + R::exact(c) * x0 * x0;
    if d >= 1 {
        u[1] = R::exact(2.0 * c) * x0;
    }
    if d >= 2 {
        u[2] = R::exact(c);
    }
    u
}

/// Taylor data of `f` at `x0` to order `d`. Returns None when x0 is outside the domain handled.
pub fn taylor(f: Fun, x0: R, d: usize) -> Option<Ser> {
    let x = x0.v;
    if !x.is_finite() {
        return None;
    }
    let one = R::ONE;
    Some(match f {
        Fun::Recip => {
            if x == 0.0 {
                return None;
            }
            let mut t = zeros(d);
            t[0] = one / x0;
            for k in 1..=d {
                t[k] = -(t[k - 1] / x0);
            }
            t
        }
        Fun::Sqrt => {
            if x <= 0.0 {
                return None;
            }
            let y0 = R::leaf2(x0, x.sqrt(), 0.5 / x.sqrt(), 0.5 / (x * x.sqrt()), 0.5);
            pow_coeffs(x0, R::exact(0.5), y0, d)
        }
        Fun::Cbrt => {
            if x == 0.0 {
                return None;
            }
            let y0 = R::leaf2(x0, x.cbrt(), x.cbrt() / (3.0 * x), 0.5 * x.cbrt().abs() / (x * x), LEAF);
            pow_coeffs(x0, R::rounded(1.0 / 3.0), y0, d)
        }
        Fun::Exp => exp_ser(x0, d),
        Fun::Exp2 => {
            let y = x.exp2();
            let ln2 = R::rounded(std::f64::consts::LN_2);
            let mut t = zeros(d);
            t[0] = R::leaf(x0, y, y * std::f64::consts::LN_2, LEAF);
            for k in 1..=d {
                t[k] = t[k - 1] * ln2 / R::exact(k as f64);
            }
            t
        }
        Fun::ExpM1 => {
            let mut t = exp_ser(x0, d);
            t[0] = R::leaf(x0, x.exp_m1(), x.exp(), LEAF);
            t
        }
        Fun::Ln => {
            if x <= 0.0 {
                return None;
            }
            ln_coeffs(x0, R::leaf2(x0, x.ln(), 1.0 / x, 2.0 / (x * x), LEAF), d)
        }
        Fun::Log2 => {
            if x <= 0.0 {
                return None;
            }
            let ln2 = R::rounded(std::f64::consts::LN_2);
            let mut t = ln_coeffs(x0, R::ZERO, d);
            for c in t.iter_mut() {
                *c = *c / ln2;
            }
            t[0] = R::leaf2(x0, x.log2(), 1.0 / (x * std::f64::consts::LN_2), 3.0 / (x * x), LEAF);
            t
        }
        Fun::Log10 => {
            if x <= 0.0 {
                return None;
            }
            let ln10 = R::rounded(std::f64::consts::LN_10);
            let mut t = ln_coeffs(x0, R::ZERO, d);
            for c in t.iter_mut() {
                *c = *c / ln10;
            }
            t[0] = R::leaf2(x0, x.log10(), 1.0 / (x * std::f64::consts::LN_10), 1.0 / (x * x), LEAF);
            t
        }
        Fun::Ln1p => {
            if x <= -1.0 {
                return None;
            }
            let y0 = one + x0;
            ln_coeffs(y0, R::leaf2(x0, x.ln_1p(), 1.0 / (1.0 + x), 2.0 / ((1.0 + x) * (1.0 + x)), LEAF), d)
        }
        Fun::Sin => sin_ser(x0, d),
        Fun::Cos => cos_ser(x0, d),
        Fun::Tan => {
            let s = sin_ser(x0, d);
            let c = cos_ser(x0, d);
            if c[0].v == 0.0 {
                return None;
            }
            let mut t = s_div(&s, &c);
            let cv = x.cos();
            t[0] = R::leaf(x0, x.tan(), 1.0 / (cv * cv), 2.0);
            t
        }
        Fun::Asin | Fun::Acos => {
            if x.abs() >= 1.0 {
                return None;
            }
            let u = quad(x0, 1.0, -1.0, d);
            let s0 = u[0].v.sqrt();
            let w0 = R::leaf2(u[0], 1.0 / s0, 0.5 / (s0 * u[0].v), 1.5 / (s0 * u[0].v * u[0].v), 1.5);
            let w = s_pow(&u, R::exact(-0.5), w0);
            if f == Fun::Asin {
                s_int(&w, R::leaf(x0, x.asin(), w0.v, LEAF))
            } else {
                s_int(&s_neg(&w), R::leaf(x0, x.acos(), w0.v, LEAF))
            }
        }
        Fun::Atan => {
            let u = quad(x0, 1.0, 1.0, d);
            let w = s_pow(&u, R::exact(-1.0), one / u[0]);
            s_int(&w, R::leaf2(x0, x.atan(), 1.0 / (1.0 + x * x), 2.0 / (1.0 + x * x), LEAF))
        }
        Fun::Sinh => sinh_ser(x0, d),
        Fun::Cosh => cosh_ser(x0, d),
        Fun::Tanh => {
            let mut t = zeros(d);
            t[0] = R::leaf(x0, x.tanh(), 1.0, LEAF);
            if x.abs() < 700.0 {
                // tanh' = 1/cosh^2, computed as (1/cosh)^2 so that nothing overflows
                let c = cosh_ser(x0, d);
                let mut onev = zeros(d);
                onev[0] = one;
                let r = s_div(&onev, &c);
                let w = s_mul(&r, &r);
                let ti = s_int(&w, t[0]);
                t = ti;
            }
            // The rounding bound is the one of the natural expression tanh' = 1 - tanh^2
            // (equivalently the quotient sinh/cosh with its cancellation cosh^2 - sinh^2):
            // k t_k = [h^(k-1)] (1 - t^2)
            let mut o = zeros(d);
            o[0] = t[0];
            for k in 1..=d {
                let mut acc = if k == 1 { one } else { R::ZERO };
                for j in 0..k {
                    acc = acc - o[j] * o[k - 1 - j];
                }
                o[k] = acc / R::exact(k as f64);
            }
            for k in 1..=d {
                t[k].e = t[k].e.max(o[k].e);
                t[k].m = t[k].m.max(o[k].m);
            }
            t
        }
        Fun::Asinh => {
            let u = quad(x0, 1.0, 1.0, d);
            let s0 = u[0].v.sqrt();
            let w0 = R::leaf2(u[0], 1.0 / s0, 0.5 / (s0 * u[0].v), 1.5 / (s0 * u[0].v * u[0].v), 1.5);
            let w = s_pow(&u, R::exact(-0.5), w0);
            s_int(&w, R::leaf2(x0, x.asinh(), w0.v, 2.0 / (1.0 + x * x), LEAF))
        }
        Fun::Acosh => {
            if x <= 1.0 {
                return None;
            }
            let u = quad(x0, -1.0, 1.0, d);
            let s0 = u[0].v.sqrt();
            let w0 = R::leaf2(u[0], 1.0 / s0, 0.5 / (s0 * u[0].v), 1.5 / (s0 * u[0].v * u[0].v), 1.5);
            let w = s_pow(&u, R::exact(-0.5), w0);
            s_int(&w, R::leaf2(x0, x.acosh(), w0.v, 2.0 * x / ((x * x - 1.0) * (x * x - 1.0).sqrt()), LEAF))
        }
        Fun::Atanh => {
            if x.abs() >= 1.0 {
                return None;
            }
            let u = quad(x0, 1.0, -1.0, d);
            let w = s_pow(&u, R::exact(-1.0), one / u[0]);
            s_int(&w, R::leaf(x0, x.atanh(), 1.0 / (1.0 - x * x), LEAF))
        }
        Fun::Abs => {
            if x == 0.0 {
                return None;
            }
            let mut t = zeros(d);
            let sg = if x > 0.0 { 1.0 } else { -1.0 };
            t[0] = x0.abs();
            if d >= 1 {
                t[1] = R::exact(sg);
            }
            t
        }
        Fun::Signum => {
            if x == 0.0 {
                return None;
            }
            let mut t = zeros(d);
            t[0] = R::exact(if x > 0.0 { 1.0 } else { -1.0 });
            t
        }
        Fun::SphJ0 => crate::special::sph_jn_taylor(0, x0, d),
        Fun::SphJ1 => crate::special::sph_jn_taylor(1, x0, d),
        Fun::SphJ2 => crate::special::sph_jn_taylor(2, x0, d),
        Fun::BesselJ0 => crate::special::bessel_jn_taylor(0, x0, d),
        Fun::BesselJ1 => crate::special::bessel_jn_taylor(1, x0, d),
        Fun::BesselJ2 => crate::special::bessel_jn_taylor(2, x0, d),
    })
}

/// Taylor data of log_b(x) for a plain base b (b > 0, b != 1)
pub fn taylor_log(x0: R, base: f64, d: usize) -> Option<Ser> {
    let x = x0.v;
    if x <= 0.0 || base <= 0.0 || base == 1.0 {
        return None;
    }
    let lnb = R::leaf(R::exact(base), base.ln(), 1.0 / base, LEAF);
    let mut t = ln_coeffs(x0, R::ZERO, d);
    for c in t.iter_mut() {
        *c = *c / lnb;
    }
    t[0] = R::leaf(x0, x.log(base), 1.0 / (x * base.ln()), 2.0);
    Some(t)
}

/// Taylor data of x^n for real n at x0 > 0 (or x0 != 0 for integer-valued n), and the finite
/// special point x0 == 0 (n a non-negative integer, or n > d).
pub fn taylor_powf(x0: R, n: f64, d: usize, leaf_units: f64) -> Option<Ser> {
    let x = x0.v;
    if !n.is_finite() {
        return None;
    }
    let is_int = n.fract() == 0.0 && n.abs() < 9.0e15;
    if x == 0.0 {
        if !x0.is_exact_zero() {
            return None;
        }
        let mut t = zeros(d);
        if is_int && n >= 0.0 {
            let k = n as usize;
            if k <= d {
                t[k] = R::ONE;
            }
            return Some(t);
        }
        if n > d as f64 {
            return Some(t);
        }
        return None;
    }
    if x < 0.0 && !is_int {
        return None;
    }
    let y = x.powf(n);
    // accuracy of the leaf x0^n in rounding units: chosen by the caller (|n| for repeated
    // squaring in powi, a few units plus the rounding of n-3 for powf)
    let y0 = R {
        v: y,
        e: (n * y / x).abs() * x0.e + leaf_units * y.abs(),
        m: y.abs(),
        x: false,
    };
    Some(pow_coeffs(x0, R::exact(n), y0, d))
}
