//! Reference spherical (j_n) and cylindrical (J_n) Bessel functions with Taylor data.

use crate::ring::R;
use crate::taylor::{cos_ser, ident, s_div, s_mul, s_scale, s_sub, sin_ser, Ser};

fn binom(p: usize, k: usize) -> f64 {
    if k > p {
        return 0.0;
    }
    let mut r = 1.0f64;
    for i in 0..k {
        r = r * (p - i) as f64 / (i + 1) as f64;
    }
    r.round()
}

/// Taylor data of the spherical Bessel function j_n (n = 0, 1, 2) at x0.
/// |x0| < 1: re-expanded power series (no cancellation); otherwise the closed forms evaluated
/// with power-series arithmetic.
pub fn sph_jn_taylor(n: usize, x0: R, d: usize) -> Ser {
    let x = x0.v;
    if x.abs() < 1.0 {
        // c_p, p = n + 2m
        const TERMS: usize = 16;
        let mut cp = Vec::with_capacity(TERMS);
        // 1/(2n+1)!!
        let mut c = R::ONE;
        for i in 1..=n {
            c = c / R::exact((2 * i + 1) as f64);
        }
        cp.push(c);
        for m in 0..TERMS - 1 {
            c = -(c / R::exact((2 * (m + 1) * (2 * n + 2 * m + 3)) as f64));
            cp.push(c);
        }
        // powers of x0
        let pmax = n + 2 * (TERMS - 1);
        let mut pw = Vec::with_capacity(pmax + 1);
        pw.push(R::ONE);
        for i in 1..=pmax {
            let last = pw[i - 1];
            pw.push(last * x0);
        }
        let mut t = vec![R::ZERO; d + 1];
        for k in 0..=d {
            let mut acc = R::ZERO;
            for (m, c) in cp.iter().enumerate() {
                let p = n + 2 * m;
                if p < k {
                    continue;
                }
                acc = acc + *c * R::exact(binom(p, k)) * pw[p - k];
            }
            t[k] = acc;
        }
        t
    } else {
        let s = sin_ser(x0, d);
        let c = cos_ser(x0, d);
        let xs = ident(x0, d);
        match n {
            0 => s_div(&s, &xs),
            1 => {
                let num = s_sub(&s, &s_mul(&xs, &c));
                s_div(&num, &s_mul(&xs, &xs))
            }
            _ => {
                let x2 = s_mul(&xs, &xs);
                let mut three = vec![R::ZERO; d + 1];
                three[0] = R::exact(3.0);
                let a = s_mul(&s_sub(&three, &x2), &s);
                let b = s_scale(&s_mul(&xs, &c), R::exact(3.0));
                s_div(&s_sub(&a, &b), &s_mul(&x2, &xs))
            }
        }
    }
}

/// J_0 .. J_nmax at x (plain f64), by power series for |x| < 2 and Miller's backward recurrence
/// otherwise. Returns (values, relative_flag): for |x| < 2 each value is relatively accurate,
/// otherwise absolutely accurate (a few units of 2^-53).
pub fn bessel_j_values(x: f64, nmax: usize) -> (Vec<f64>, bool) {
    let ax = x.abs();
    let mut out = vec![0.0f64; nmax + 1];
    let rel;
    if ax < 2.0 {
        rel = true;
        let h = 0.5 * ax;
        let z = -h * h;
        for (m, o) in out.iter_mut().enumerate() {
            // (x/2)^m / m!
            let mut lead = 1.0f64;
            for i in 1..=m {
                lead *= h / i as f64;
            }
            let mut term = 1.0f64;
            let mut sum = 1.0f64;
            for k in 1..40 {
                term *= z / (k as f64 * (k + m) as f64);
                sum += term;
                if term.abs() < 1e-20 * sum.abs() {
                    break;
                }
            }
            *o = lead * sum;
        }
    } else {
        rel = false;
        let nstart = 2 * ((ax as usize + 70) / 2 + nmax / 2 + 1);
        let mut jp1 = 0.0f64;
        let mut j = 1.0e-250f64;
        let mut norm = 0.0f64;
        let mut vals = vec![0.0f64; nstart + 1];
        vals[nstart] = j;
        for k in (1..=nstart).rev() {
            let jm1 = (2.0 * k as f64 / ax) * j - jp1;
            jp1 = j;
            j = jm1;
            vals[k - 1] = j;
        }
        // normalisation J0 + 2 sum J_{2k} = 1
        norm += vals[0];
        let mut k = 2;
        while k <= nstart {
            norm += 2.0 * vals[k];
            k += 2;
        }
        for (m, o) in out.iter_mut().enumerate() {
            *o = vals[m] / norm;
        }
    }
    if x < 0.0 {
        for (m, o) in out.iter_mut().enumerate() {
            if m % 2 == 1 {
                *o = -*o;
            }
        }
    }
    (out, rel)
}

/// Taylor data of J_n (n = 0, 1, 2) at x0: J_n^(k) = 2^-k sum_j (-1)^j C(k,j) J_{n-k+2j},  J_{-m} = (-1)^m J_m.
pub fn bessel_jn_taylor(n: usize, x0: R, d: usize) -> Ser {
    let (vals, rel) = bessel_j_values(x0.v, n + d);
    let leaf = |m: i64| -> R {
        let (idx, sg) = if m < 0 {
            ((-m) as usize, if (-m) % 2 == 1 { -1.0 } else { 1.0 })
        } else {
            (m as usize, 1.0)
        };
        let v = sg * vals[idx];
        // |J_m'| <= 1
        let own = if rel { 4.0 * v.abs() } else { 4.0 };
        R { v, e: x0.e + own, m: v.abs(), x: false }
    };
    let mut t = vec![R::ZERO; d + 1];
    let mut fact = 1.0f64;
    for k in 0..=d {
        if k > 0 {
            fact *= k as f64;
        }
        let mut acc = R::ZERO;
        for j in 0..=k {
            let m = n as i64 - k as i64 + 2 * j as i64;
            let c = binom(k, j) * if j % 2 == 1 { -1.0 } else { 1.0 };
            acc = acc + R::exact(c) * leaf(m);
        }
        // divide by 2^k k!
        t[k] = acc / R::exact((1u64 << k) as f64 * fact);
    }
    t
}
