//! Reference algebra ("oracle") for the num-dual verification harness. Independent of num-dual.
pub mod jet;
pub mod ring;
pub mod special;
pub mod taylor;

pub use jet::{Alg, Jet, Mono};
pub use ring::R;
pub use taylor::Fun;
