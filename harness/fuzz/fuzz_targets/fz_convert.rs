#![no_main]
// C13: subset/superset conversions under libFuzzer + ASan/LSan (oracle inside the target)
use libfuzzer_sys::fuzz_target;
fuzz_target!(|data: &[u8]| {
    ndv_core::fuzzsupport::fuzz_one::<ndv_core::c13::C13>("fz_convert", data);
});
