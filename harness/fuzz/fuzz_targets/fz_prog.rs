#![no_main]
// C03 / C06: programs
use libfuzzer_sys::fuzz_target;
fuzz_target!(|data: &[u8]| {
    if data.is_empty() {
        return;
    }
    let sel = match std::env::var("NDV_FUZZ_ONLY").ok().as_deref() {
        Some("C03") => 0,
        Some("C06") => 1,
        _ => data[0] % 2,
    };
    match sel {
        0 => ndv_core::fuzzsupport::fuzz_one::<ndv_core::c03::C03>("fz_prog", &data[1..]),
        _ => ndv_core::fuzzsupport::fuzz_one::<ndv_core::c06::C06>("fz_prog", &data[1..]),
    }
});
