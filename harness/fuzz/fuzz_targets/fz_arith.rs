#![no_main]
// C02 / C07 / C08: arithmetic, absent parts, syntactic forms (first byte selects the property)
use libfuzzer_sys::fuzz_target;
fuzz_target!(|data: &[u8]| {
    if data.is_empty() {
        return;
    }
    // NDV_FUZZ_ONLY=C02|C07|C08 restricts the campaign to one property
    let sel = match std::env::var("NDV_FUZZ_ONLY").ok().as_deref() {
        Some("C02") => 0,
        Some("C07") => 1,
        Some("C08") => 2,
        _ => data[0] % 3,
    };
    match sel {
        0 => ndv_core::fuzzsupport::fuzz_one::<ndv_core::c02::C02>("fz_arith", &data[1..]),
        1 => ndv_core::fuzzsupport::fuzz_one::<ndv_core::c07::C07>("fz_arith", &data[1..]),
        _ => ndv_core::fuzzsupport::fuzz_one::<ndv_core::c08::C08>("fz_arith", &data[1..]),
    }
});
