#![no_main]
// C18: textual rendering
use libfuzzer_sys::fuzz_target;
fuzz_target!(|data: &[u8]| {
    ndv_core::fuzzsupport::fuzz_one::<ndv_core::c18::C18>("fz_display", data);
});
